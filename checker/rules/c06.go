package rules

import (
	"fmt"
	"go/token"
	"go/types"
	"strings"

	"golang.org/x/tools/go/ssa"

	"taskverif/an"
)

func init() { register("C06", checkC06) }

func checkC06(c *an.Ctx) {
	c.Rule("C06.1", "phase order in TaskRunner.Run (E2/E3): condition → before → compile → execute → store → after, each entered only when its predecessor succeeded; a false condition only marks the task skipped and returns nil; all phases are synchronous calls")
	c.Rule("C06.2", "compile nesting (E3): CompileCommand is called in a loop over t.Commands nested inside the loop over t.GetVariations(), with the current command; each compiled job is linked behind the previous one exactly once")
	c.Rule("C06.3", "execute table (E2): err=nil → next job; exit status ∧ allow_failure → next job; exit status ∧ ¬allow_failure → errored, return; not an exit status → errored, return; the next job is current.Next; Execute gets the current job")
	c.Rule("C06.4", "hooks (E2): a failing before command returns its error at once; a failing after command never returns an error and never leaves the loop")
	c.Rule("C06.5", "the configured policy reaches the runner (E4 who-may-write): outside pkg/task and internal/config no function writes Commands, Before, After, Condition, AllowFailure, Variations, Timeout, Context, Interactive, ExportAs or Name of a task it did not build from scratch — the per-stage and per-event copies differ from the configured task in env, variables and dir only")
	c.NotDecided = append(c.NotDecided, "that the interpreter waits for each command (third party)", "GetVariations' one-empty-variation default (a value fact, covered by the existing tests)")
	r := resolveRunner(c, "C06.0")
	if !r.ok {
		return
	}
	c.OK("C06.0", "runner roles", r.run.Pos(), "job walk in %s", an.Short(r.execute))
	checkRunTable(c, "C06.1", map[string]bool{"order-task": true, "stop-on-failure": true, "complete-on-success": true})
	freshRun(c, "C06.1")
	runIsSynchronous(c, r, "C06.1")
	compileNesting(c, r, "C06.2")
	executeTable(c, r, "C06.3", false)
	checkRunTable(c, "C06.4", map[string]bool{"hooks": true})
	taskPolicyUntouched(c, "C06.5")
	// … nor an element of its command lists: a filter or a rendering "in place" on t.Commands rewrites the task's definition
	taskStorageWrites(c, "C06.5")
	// … starting with what the loader builds: the command lists and the variations are the definition's, entry for entry
	declaredList(c, "C06.5", "Task.Variations", "taskDefinition.Variations", "the task's variations", "the definition's variations", "a variation dropped on the way (an empty one still means one pass over the commands) is a pass that never runs")
	declaredList(c, "C06.5", "Task.Commands", "taskDefinition.Command", "the task's commands", "the definition's command", "a command dropped or rewritten on the way is one the task never runs")
}

// taskPolicyUntouched checks C06.5: outside the packages that define and build tasks (pkg/task,
// internal/config) and outside TaskRunner.Run's own result bookkeeping, no field of a task.Task that
// decides how its commands are run — Commands, Before, After, Condition, AllowFailure, Variations,
// Timeout, Context, Interactive — is written. The scheduler and the watcher run a copy of the task
// that may differ in env, variables and dir only.
func taskPolicyUntouched(c *an.Ctx, rule string, only ...string) {
	p := c.P
	policy := map[string]bool{"Commands": true, "Before": true, "After": true, "Condition": true, "AllowFailure": true,
		"Variations": true, "Timeout": true, "Context": true, "Interactive": true, "ExportAs": true, "Name": true}
	if len(only) > 0 {
		policy = map[string]bool{}
		for _, f := range only {
			policy[f] = true
		}
	}
	n := 0
	for _, fn := range p.Funcs {
		if !an.InModule(fn) || inPkgs("pkg/task", "internal/config")(fn) {
			continue
		}
		an.EachInstr(fn, func(in ssa.Instruction) {
			st, ok := in.(*ssa.Store)
			if !ok {
				return
			}
			fa, ok := st.Addr.(*ssa.FieldAddr)
			if !ok || !an.TypeIs(fa.X.Type(), "pkg/task", "Task") {
				return
			}
			f := strings.TrimPrefix(an.TypeField(fa), "Task.")
			if !policy[f] {
				return
			}
			// a task the function builds from scratch (not a copy of a configured one) is its own business
			if fresh, copied := an.FreshBase(fa.X); fresh && !copied {
				return
			}
			n++
			c.Bad(rule, an.Short(fn)+":write(Task."+f+")", st.Pos(), "%s changes %s of a task it did not build: the task then runs with a command list / failure policy / timeout other than the one it was configured with", an.Short(fn), "Task."+f)
		})
	}
	if n == 0 {
		c.OK(rule, "module:task-policy", token.NoPos, "no function outside pkg/task and internal/config writes a policy field of a task it did not build %v", only)
	}
}

func compileNesting(c *an.Ctx, r *runnerRoles, rule string) {
	p := c.P
	ct := p.Func("pkg/runner", "TaskCompiler", "CompileTask")
	if ct == nil {
		c.Und(rule, "runner.(*TaskCompiler).CompileTask", token.NoPos, "CompileTask not found")
		return
	}
	ccr := resolveCmdCompiler(p)
	var sites []ssa.CallInstruction
	an.EachInstr(ct, func(in ssa.Instruction) {
		if call, ok := ccr.asCall(in); ok {
			sites = append(sites, call)
		}
	})
	if len(sites) != 1 {
		c.Und(rule, an.Short(ct)+":call(CompileCommand)", ct.Pos(), "expected one CompileCommand call site in CompileTask, found %d (commands may be compiled through a helper: nesting cannot be established)", len(sites))
		return
	}
	site := sites[0].(*ssa.Call)
	loops := an.Loops(ct)
	inner := an.InnermostLoop(loops, site.Block())
	var outer *an.Loop
	if inner != nil {
		for _, l := range loops {
			if l != inner && l.Blocks[inner.Header] && (outer == nil || len(l.Blocks) < len(outer.Blocks)) {
				outer = l
			}
		}
	}
	if inner == nil || outer == nil {
		c.Bad(rule, an.Short(ct)+":nesting", site.Pos(), "the command compilation is not inside two nested loops (variations × commands)")
		return
	}
	var task *ssa.Parameter
	for _, prm := range ct.Params {
		if an.TypeIs(prm.Type(), "pkg/task", "Task") {
			task = prm
		}
	}
	iop := an.AccessPath(inner.RangeOperand())
	innerOK := iop.LastField() == "Commands" && task != nil && an.SameValue(iop.Base, task)
	outerOK := false
	for _, v := range an.ResolveAll(outer.RangeOperand()) {
		if call, ok := v.(*ssa.Call); ok {
			if cc, ok := an.IsCallTo(call, "(pkg/task.Task).GetVariations"); ok && task != nil && an.SameValue(cc.Args[0], task) {
				outerOK = true
			}
		}
	}
	c.Check(innerOK && outerOK, rule, an.Short(ct)+":nesting", site.Pos(),
		"commands loop (t.Commands) is nested inside the variations loop (t.GetVariations())",
		fmt.Sprintf("loop nesting is not variations(outer) × commands(inner): inner ranges over %s, outer over %s", an.Prov(inner.RangeOperand()), an.Prov(outer.RangeOperand())))
	// the command argument is the inner loop's element
	_, elems := inner.RangeKeyValue()
	cmdOK := false
	for _, e := range elems {
		if cv := ccr.arg1(site, "command"); cv != nil && an.SameValue(cv, e) {
			cmdOK = true
		}
	}
	c.Check(cmdOK, rule, an.Short(ct)+":command-arg", site.Pos(), "CompileCommand receives the current command", "CompileCommand does not receive the current element of t.Commands")

	// linking: per inner iteration, with prev = nil / non-nil
	var jobVals []ssa.Value
	jobVals = extractOf(site, 0)
	isJob := func(v ssa.Value) bool {
		for _, j := range jobVals {
			if an.SameValue(v, j) {
				return true
			}
		}
		return false
	}
	// header φs of type *Job
	var phis []*ssa.Phi
	for _, in := range inner.Header.Instrs {
		phi, ok := in.(*ssa.Phi)
		if !ok {
			break
		}
		if an.TypeIs(phi.Type(), "pkg/executor", "Job") {
			phis = append(phis, phi)
		}
	}
	if len(phis) == 0 {
		// second idiom: the jobs are collected into a slice in compile order and linked afterwards
		if why, ok := collectThenChain(c, ct, site, inner, isJob); ok {
			c.OK(rule, an.Short(ct)+":linking", site.Pos(), "%s", why)
		} else if why2, ok := tailPointerLinking(c, ct, site, inner, isJob); ok {
			c.OK(rule, an.Short(ct)+":linking", site.Pos(), "%s", why2)
		} else {
			c.Und(rule, an.Short(ct)+":linking", site.Pos(), "neither loop-carried job pointers (first/last) nor a collect-then-chain construction was recognised in the commands loop: %s", why)
		}
		return
	}
	// which φ is "last" (gets a .Next store) — decided per row from the effects
	for _, row := range []struct {
		name string
		nilp bool
	}{{"first job (no previous)", true}, {"later job (previous exists)", false}} {
		seed := map[ssa.Value]an.AVal{}
		for _, phi := range phis {
			if row.nilp {
				seed[phi] = an.AVal{K: an.ANil}
			} else {
				seed[phi] = an.AVal{K: an.ANonNil}
			}
		}
		ex := &an.Explorer{P: p, NoReturn: noReturn, MaxDepth: 2,
			Inline: func(g *ssa.Function) bool {
				return an.Outer(g).Pkg == ct.Pkg && g != ct && !ccr.isFn(g)
			}}
		inner.Bound(ex)
		ex.Atom = func(v ssa.Value) (an.AVal, bool) {
			for _, e := range errOf(site) {
				if v == e {
					return an.AVal{K: an.ANil}, true
				}
			}
			if isJob(v) {
				return an.AVal{K: an.ANonNil}, true
			}
			return an.AVal{}, false
		}
		ex.Effect = func(in ssa.Instruction, st *an.State) string {
			sto, ok := in.(*ssa.Store)
			if !ok {
				return ""
			}
			ap := an.AccessPath(sto.Addr)
			if ap.LastField() == "Next" && an.TypeIs(ap.Base.Type(), "pkg/executor", "Job") {
				base := "other"
				for _, phi := range phis {
					if st.SameRoot(ap.Base, phi) {
						base = "prev"
					}
				}
				val := "other"
				if isJob(st.Root(sto.Val)) {
					val = "job"
				}
				return "link(" + base + ".Next=" + val + ")"
			}
			return ""
		}
		outs := ex.Run(ct, site.Block(), nil, seed)
		// only consider what happens from the call on: run from the call
		outs = ex.RunFrom(ct, site, seed)
		key := an.Short(ct) + ":linking " + row.name
		bad := ""
		for _, o := range outs {
			if o.End != "stop" {
				continue
			}
			links := 0
			for _, e := range o.Effects {
				if e == "link(prev.Next=job)" {
					links++
				} else {
					bad = "unexpected link " + e
				}
			}
			if row.nilp && links != 0 {
				bad = "links behind a previous job that does not exist"
			}
			if !row.nilp && links != 1 {
				bad = fmt.Sprintf("the new job is linked behind the previous one %d times, want exactly once", links)
			}
			// afterwards some loop-carried pointer is the new job (the new 'last')
			advanced := false
			for phi, v := range o.PhiIn {
				_ = phi
				if v == "non-nil" && row.nilp {
					advanced = true
				}
				if strings.Contains(v, "CompileCommand") || v == "non-nil" {
					advanced = true
				}
			}
			if !advanced {
				bad = "no loop-carried pointer advances to the new job: later jobs would be linked behind a stale one"
			}
		}
		if len(outs) == 0 {
			bad = "no path"
		}
		if bad != "" {
			c.Bad(rule, key, site.Pos(), "%s", bad)
		} else {
			c.OK(rule, key, site.Pos(), "%d paths", len(outs))
		}
	}
	// the 'last' pointer must become the new job itself, not a stale value: check the φ that receives .Next stores
	for _, phi := range phis {
		isLast := false
		if refs := phi.Referrers(); refs != nil {
			for _, rf := range *refs {
				if fa, ok := rf.(*ssa.FieldAddr); ok && an.AccessPath(fa).LastField() == "Next" {
					isLast = true
				}
			}
		}
		if !isLast {
			continue
		}
		// every in-loop incoming edge of this φ must be the new job (or job.Next-walk to it)
		for i, pred := range inner.Header.Preds {
			if !inner.Blocks[pred] {
				continue
			}
			good := true
			srcs := c.P.DeepSourcesStop(phi.Edges[i], 2, false, isJob)
			for _, v := range srcs {
				ok := isJob(v)
				// prev = prev.Next after prev.Next = j
				if ap := an.AccessPath(v); ap.LastField() == "Next" {
					ok = true
				}
				if _, isPrm := v.(*ssa.Parameter); isPrm {
					ok = true // handed through a helper: the linking table decides
				}
				if !ok {
					good = false
				}
			}
			if len(srcs) == 0 {
				good = false
			}
			c.Check(good, rule, an.Short(ct)+":last-pointer", phi.Pos(), "after each command the 'last job' pointer is the job just compiled", "the 'last job' pointer is not advanced to the job just compiled ("+an.Prov(phi.Edges[i])+")")
		}
	}
}

// executeTable checks C06.3 (and, with exitCode, the C07.1 additions).
func executeTable(c *an.Ctx, r *runnerRoles, rule string, exitCode bool) {
	f, l := r.execute, r.jobLoop
	var task *ssa.Parameter
	for _, prm := range f.Params {
		if an.TypeIs(prm.Type(), "pkg/task", "Task") {
			task = prm
		}
	}
	var execCall *ssa.Call
	for b := range l.Blocks {
		for _, in := range b.Instrs {
			if _, ok := isExecCall(in); ok {
				if call, ok := in.(*ssa.Call); ok {
					if execCall != nil {
						c.Und(rule, an.Short(f)+":Execute", in.Pos(), "more than one Execute call in the job loop")
						return
					}
					execCall = call
				}
			}
		}
	}
	if execCall == nil || task == nil {
		c.Und(rule, an.Short(f)+":Execute", f.Pos(), "no synchronous Execute call in the job loop")
		return
	}
	// current job φ
	var cur *ssa.Phi
	for _, in := range l.Header.Instrs {
		phi, ok := in.(*ssa.Phi)
		if !ok {
			break
		}
		for _, e := range phi.Edges {
			if an.AccessPath(e).LastField() == "Next" {
				cur = phi
			}
		}
	}
	jobArg := execCall.Call.Args[len(execCall.Call.Args)-1]
	c.Check(cur != nil && an.SameValue(jobArg, cur), rule, an.Short(f)+":Execute(job)", execCall.Pos(), "Execute receives the loop's current job", "Execute does not receive the loop's current job")
	if cur != nil {
		for i, pred := range l.Header.Preds {
			if !l.Blocks[pred] {
				continue
			}
			ap := an.AccessPath(cur.Edges[i])
			c.Check(ap.LastField() == "Next" && len(ap.Fields) == 1 && an.SameValue(ap.Base, cur), rule, an.Short(f)+":advance", cur.Pos(), "the walk advances by exactly one job (current.Next)", "the walk does not advance to current.Next: "+an.Prov(cur.Edges[i]))
		}
	}
	errVals := errOf(execCall)
	type row struct {
		name          string
		err, ok, af   int // -1 any
		next, errored bool
	}
	rows := []row{
		{"err=nil", 0, -1, -1, true, false},
		{"exit status, allow_failure", 1, 1, 1, true, false},
		{"exit status, no allow_failure", 1, 1, 0, false, true},
		{"not an exit status, allow_failure", 1, 0, 1, false, true},
		{"not an exit status, no allow_failure", 1, 0, 0, false, true},
	}
	var table []string
	for _, rw := range rows {
		rw := rw
		ex := &an.Explorer{P: c.P, NoReturn: noReturn, MaxDepth: 3,
			Inline: func(g *ssa.Function) bool {
				return an.Outer(g).Pkg == an.Outer(f).Pkg && g != f && g != r.run
			}}
		l.Bound(ex)
		ex.AtomSt = func(v ssa.Value, st *an.State) (an.AVal, bool) {
			for _, e := range errVals {
				if v == e {
					if rw.err == 0 {
						return an.AVal{K: an.ANil}, true
					}
					return an.AVal{K: an.ANonNil}, true
				}
			}
			if ext, ok := v.(*ssa.Extract); ok && ext.Index == 1 {
				if call, ok := ext.Tuple.(*ssa.Call); ok {
					if cc, ok := an.IsCallTo(call, fnIsExitStatus, "mvdan.cc/sh/v3/interp.IsExitStatus"); ok && rw.ok >= 0 {
						for _, e := range errVals {
							if st.SameRoot(cc.Args[0], e) {
								return an.ABool(rw.ok == 1), true
							}
						}
					}
				}
			}
			if u, ok := v.(*ssa.UnOp); ok && u.Op == token.MUL {
				ap := an.AccessPath(u.X)
				if _, isFA := u.X.(*ssa.FieldAddr); isFA && ap.LastField() == "AllowFailure" && st.SameRoot(ap.Base, task) && rw.af >= 0 {
					return an.ABool(rw.af == 1), true
				}
			}
			return an.AVal{}, false
		}
		ex.Effect = func(in ssa.Instruction, st *an.State) string {
			if sto, ok := in.(*ssa.Store); ok {
				ap := an.AccessPath(sto.Addr)
				if st.SameRoot(ap.Base, task) && len(ap.Fields) == 1 {
					switch ap.Fields[0] {
					case "Errored":
						return "Errored:=" + st.Eval(sto.Val).String()
					case "ExitCode":
						return "ExitCode:=status"
					case "Error":
						return "Error:=err"
					}
				}
			}
			if _, ok := isExecCall(in); ok {
				return "Execute"
			}
			return ""
		}
		outs := ex.RunFrom(f, execCall, nil)
		key := an.Short(f) + ":row " + rw.name
		bad := ""
		var cells []string
		for _, o := range outs {
			cells = append(cells, strings.Join(o.Effects, ",")+"→"+o.End)
			for _, u := range o.Unknown {
				if rw.err == 0 {
					continue
				}
				bad = "forks on a condition outside the table: " + u
			}
			errored := false
			for _, e := range o.Effects {
				if e == "Errored:=true" {
					errored = true
				}
				if e == "Execute" {
					bad = "a further command is executed in the same iteration"
				}
			}
			if rw.next {
				if o.End != "stop" || o.StopBlock != l.Header {
					bad = "does not go on to the next job (ends with " + o.End + ")"
				}
				if errored {
					bad = "marks the task errored although it goes on"
				}
			} else {
				if o.End != "return" {
					bad = "does not stop the task (ends with " + o.End + ")"
				} else if o.Ret[len(o.Ret)-1].K != an.ANonNil {
					bad = "returns a nil or unknown error"
				}
				if !errored {
					bad = "does not mark the task errored"
				}
			}
		}
		if len(outs) == 0 {
			bad = "no feasible path"
		}
		table = append(table, fmt.Sprintf("%-40s -> %s", rw.name, strings.Join(dedup(cells), " | ")))
		if bad != "" {
			c.Bad(rule, key, execCall.Pos(), "%s: the job walk %s", rw.name, bad)
		} else {
			c.OK(rule, key, execCall.Pos(), "%s", strings.Join(dedup(cells), " | "))
		}
	}
	c.Tables["execute("+an.Short(f)+")"] = table
	// after the loop: the success return is nil — either the constant, or a
	// loop-carried error variable that is nil on every row that goes on
	var errPhis []*ssa.Phi
	for _, in := range l.Header.Instrs {
		phi, ok := in.(*ssa.Phi)
		if !ok {
			break
		}
		if an.IsErrorType(phi.Type()) {
			errPhis = append(errPhis, phi)
		}
	}
	for _, ret := range an.Returns(f) {
		x := l.NormalExit()
		if x == nil || !x.Dominates(ret.Block()) {
			continue
		}
		res := an.RetVal(ret, len(ret.Results)-1)
		good := an.IsNilConst(res)
		why := an.Prov(res)
		if !good {
			all := true
			for _, src := range an.Sources(res) {
				if an.IsNilConst(src) {
					continue
				}
				// a value produced inside the loop may reach the return only on a failing row,
				// which never takes the normal exit; a value carried round the back edge on a
				// row that goes on (allowed failure) makes the whole task fail at its end
				carried := false
				for _, phi := range errPhis {
					for i, pred := range l.Header.Preds {
						if l.Blocks[pred] {
							for _, e := range an.Sources(phi.Edges[i]) {
								if e == src {
									carried = true
								}
							}
						}
					}
				}
				if carried || !an.IsNilConst(src) {
					if _, isPhi := src.(*ssa.Phi); !isPhi {
						all = false
						why = "an error produced by a job (" + an.Prov(src) + ") can be returned after the last job although the walk went on past it"
					}
				}
			}
			good = all
		}
		c.Check(good, rule, an.Short(f)+":final-return", ret.Pos(), "returns nil after the last job", "does not return nil after the last job succeeded or was allowed to fail: "+why)
	}
	executorErrorIdentity(c, rule)
	exitStatusOrigin(c, rule)
}

// executorErrorIdentity checks that DefaultExecutor.Execute hands the
// interpreter's error back unchanged, and executor.IsExitStatus asks the
// interpreter: the exit-status identity of an error decides the table.
func executorErrorIdentity(c *an.Ctx, rule string) {
	p := c.P
	ex := p.Func("pkg/executor", "DefaultExecutor", "Execute")
	ies := p.Func("pkg/executor", "", "IsExitStatus")
	if ex == nil || ies == nil {
		c.Und(rule, "executor.(*DefaultExecutor).Execute", token.NoPos, "Execute / IsExitStatus not found")
		return
	}
	er := resolveExec(p)
	runCall := er.run
	if runCall == nil {
		c.Und(rule, an.Short(ex)+":interp.Run", ex.Pos(), "Execute does not call the interpreter synchronously")
		return
	}
	// on every path of Execute (helpers inlined) that ran the interpreter, the error returned is the interpreter's own
	idx := an.ErrResultIndex(ex.Signature)
	exp := er.explorer()
	exp.Effect = func(in ssa.Instruction, st *an.State) string {
		if in == ssa.Instruction(runCall) {
			return "run"
		}
		return ""
	}
	okAll := true
	nRun := 0
	for _, o := range exp.Run(ex, ex.Blocks[0], nil, nil) {
		if o.End != "return" || !has(o.Effects, "run") || idx >= len(o.RetVals) {
			continue
		}
		nRun++
		for _, src := range an.Sources(o.Root(o.RetVals[idx])) {
			src = o.Root(src)
			if an.IsNilConst(src) || src == ssa.Value(runCall) || carriedBy(p, src, runCall) {
				continue
			}
			okAll = false
			c.Bad(rule, an.Short(ex)+":error-identity", runCall.Pos(), "after running the command Execute returns %s instead of the interpreter's error itself: an exit status may no longer be recognised as one (or something else may be taken for one)", an.Prov(src))
		}
	}
	if nRun == 0 {
		c.Und(rule, an.Short(ex)+":error-identity", runCall.Pos(), "no path of Execute returns after the interpreter call")
	} else if okAll {
		c.OK(rule, an.Short(ex)+":error-identity", runCall.Pos(), "Execute returns the interpreter's error unchanged (%d paths)", nRun)
	}
	good := false
	for _, ret := range an.Returns(ies) {
		rv0 := an.RetVal(ret, 0)
		// (a named type for the status — a conversion that keeps width and sign — is the same number)
		for {
			var inner ssa.Value
			switch x := rv0.(type) {
			case *ssa.Convert:
				inner = x.X
			case *ssa.ChangeType:
				inner = x.X
			}
			if inner == nil {
				break
			}
			bo, ok1 := rv0.Type().Underlying().(*types.Basic)
			bi, ok2 := inner.Type().Underlying().(*types.Basic)
			if !ok1 || !ok2 || bo.Kind() != bi.Kind() {
				break
			}
			rv0 = inner
		}
		if call, ok := rv0.(*ssa.Extract); ok {
			if cc, ok := call.Tuple.(*ssa.Call); ok {
				if c2, ok := an.IsCallTo(cc, "mvdan.cc/sh/v3/interp.IsExitStatus"); ok && an.SameValue(c2.Args[0], ies.Params[0]) {
					good = true
				}
			}
		}
	}
	c.Check(good, rule, an.Short(ies)+":delegates", ies.Pos(), "IsExitStatus returns interp.IsExitStatus(err) unchanged", "IsExitStatus does not return interp.IsExitStatus(err) unchanged")
}

// runIsSynchronous: no go statement between TaskRunner.Run and Executor.Execute.
func runIsSynchronous(c *an.Ctx, r *runnerRoles, rule string) {
	// synchronous: no go edge from Run to Execute
	syncOK := true
	reach := c.P.Reach([]*ssa.Function{r.run}, func(e an.CallEdge) bool { return an.InModule(e.Callee) })
	for f := range reach {
		an.EachInstr(f, func(in ssa.Instruction) {
			g, ok := in.(*ssa.Go)
			if !ok {
				return
			}
			sub := c.P.Reach(c.P.Callees(&g.Call), func(e an.CallEdge) bool { return an.InModule(e.Callee) })
			for h := range sub {
				an.EachInstr(h, func(y ssa.Instruction) {
					if _, ok := isExecCall(y); ok {
						syncOK = false
						c.Bad(rule, an.Short(f)+":go", g.Pos(), "a command is executed in a goroutine started under TaskRunner.Run: commands would overlap")
					}
				})
			}
			if _, ok := isExecCall(g); ok {
				syncOK = false
				c.Bad(rule, an.Short(f)+":go", g.Pos(), "Execute is started with go")
			}
		})
	}
	if syncOK {
		c.OK(rule, an.Short(r.run)+":synchronous", r.run.Pos(), "no go statement between TaskRunner.Run and Executor.Execute (%d functions)", len(reach))
	}
}

// collectThenChain recognises the construction
//
//	for … { for … { j := CompileCommand(…); jobs = append(jobs, j) } }
//	return chain(jobs)        // chain: for i := 1; i < len(jobs); i++ { jobs[i-1].Next = jobs[i] }; return jobs[0]
//
// and checks what the first/last idiom is checked for: every compiled job is
// added exactly once, in compile order; consecutive elements are linked
// exactly once; the head is the first element.
func collectThenChain(c *an.Ctx, ct *ssa.Function, site *ssa.Call, inner *an.Loop, isJob func(ssa.Value) bool) (string, bool) {
	p := c.P
	// (1) one append of the job per iteration, onto the loop-carried slice
	var acc *ssa.Phi
	for _, in := range inner.Header.Instrs {
		phi, ok := in.(*ssa.Phi)
		if !ok {
			break
		}
		if sl, ok := phi.Type().Underlying().(*types.Slice); ok && an.TypeIs(sl.Elem(), "pkg/executor", "Job") {
			acc = phi
		}
	}
	if acc == nil {
		return "no loop-carried slice of jobs", false
	}
	ex := &an.Explorer{P: p, NoReturn: noReturn}
	inner.Bound(ex)
	ex.Atom = func(v ssa.Value) (an.AVal, bool) {
		for _, e := range errOf(site) {
			if v == e {
				return an.AVal{K: an.ANil}, true
			}
		}
		return an.AVal{}, false
	}
	var appended ssa.Value
	ex.Effect = func(in ssa.Instruction, st *an.State) string {
		call, ok := in.(*ssa.Call)
		if !ok {
			return ""
		}
		if b, ok := call.Call.Value.(*ssa.Builtin); ok && b.Name() == "append" {
			onAcc := false
			for _, s := range an.ResolveAll(call.Call.Args[0]) {
				if s == ssa.Value(acc) {
					onAcc = true
				}
			}
			elems := an.VariadicElems(call.Call.Args[1])
			if onAcc && len(elems) == 1 && isJob(elems[0]) {
				appended = call
				return "append(job)"
			}
			if onAcc {
				return "append(other)"
			}
		}
		return ""
	}
	outs := ex.RunFrom(ct, site, nil)
	for _, o := range outs {
		if o.End != "stop" {
			continue
		}
		n := 0
		for _, e := range o.Effects {
			if e == "append(job)" {
				n++
			} else {
				return "the slice of jobs also receives " + e, false
			}
		}
		if n != 1 {
			return fmt.Sprintf("a compiled job is appended %d times per iteration, want once", n), false
		}
		if v, ok := o.PhiIn[acc]; !ok || v == "keep" {
			return "the appended slice is not carried to the next iteration", false
		}
	}
	if len(outs) == 0 || appended == nil {
		return "no path appends the compiled job", false
	}
	// (2) what CompileTask returns on success is chain(<that slice>)
	var chainFn *ssa.Function
	var chainArg int
	for _, ret := range an.Returns(ct) {
		if !an.IsNilConst(an.RetVal(ret, 1)) {
			continue
		}
		found := false
		for _, s := range an.Sources(an.RetVal(ret, 0)) {
			call, ok := s.(*ssa.Call)
			if !ok {
				continue
			}
			callee := call.Call.StaticCallee()
			if callee == nil || callee.Blocks == nil || an.Outer(callee).Pkg != ct.Pkg {
				continue
			}
			for i, a := range call.Call.Args {
				for _, as := range append(an.Sources(a), an.ResolveAll(a)...) {
					if as == ssa.Value(acc) || as == appended {
						chainFn, chainArg, found = callee, i, true
					}
					if ph, ok := as.(*ssa.Phi); ok {
						for _, ed := range ph.Edges {
							for _, es := range an.Sources(ed) {
								if es == ssa.Value(acc) || es == appended {
									chainFn, chainArg, found = callee, i, true
								}
							}
						}
					}
				}
			}
		}
		if !found {
			chainFn = nil
			break
		}
	}
	var X ssa.Value
	if chainFn != nil {
		X = chainFn.Params[chainArg]
	} else {
		// (2') … or CompileTask links the collected slice itself, after the loops
		isCollected := func(v ssa.Value) bool {
			seen := map[ssa.Value]bool{}
			var walk func(v ssa.Value) bool
			walk = func(v ssa.Value) bool {
				if seen[v] {
					return false
				}
				seen[v] = true
				for _, sv := range append(an.Sources(v), an.ResolveAll(v)...) {
					if sv == ssa.Value(acc) || sv == appended {
						return true
					}
					if ph, ok := sv.(*ssa.Phi); ok {
						for _, ed := range ph.Edges {
							if walk(ed) {
								return true
							}
						}
					}
				}
				return false
			}
			return walk(v)
		}
		an.EachInstr(ct, func(in ssa.Instruction) {
			st, ok := in.(*ssa.Store)
			if !ok || inner.Blocks[st.Block()] {
				return
			}
			fa, ok := st.Addr.(*ssa.FieldAddr)
			if !ok || an.AccessPath(fa).LastField() != "Next" {
				return
			}
			if u, ok := fa.X.(*ssa.UnOp); ok && u.Op == token.MUL {
				if ia, ok := u.X.(*ssa.IndexAddr); ok && isCollected(ia.X) {
					chainFn, X = ct, ia.X
				}
			}
		})
		if chainFn == nil {
			return "a successful return does not hand the collected jobs to a linking helper, and CompileTask does not link them itself", false
		}
	}
	// (3) the helper links neighbours: X[i-1].Next = X[i] (or X[i].Next = X[i+1]) for every i
	var link *ssa.Store
	an.EachInstr(chainFn, func(in ssa.Instruction) {
		st, ok := in.(*ssa.Store)
		if !ok {
			return
		}
		fa, ok := st.Addr.(*ssa.FieldAddr)
		if !ok || an.AccessPath(fa).LastField() != "Next" {
			return
		}
		link = st
	})
	if link == nil {
		return an.Short(chainFn) + " stores no Next pointer", false
	}
	elemOf := func(v ssa.Value) (idx ssa.Value, ok bool) {
		u, isLoad := v.(*ssa.UnOp)
		if !isLoad || u.Op != token.MUL {
			return nil, false
		}
		ia, isIA := u.X.(*ssa.IndexAddr)
		if !isIA || !an.SameValue(ia.X, X) {
			return nil, false
		}
		return ia.Index, true
	}
	fa := link.Addr.(*ssa.FieldAddr)
	i1, ok1 := elemOf(fa.X)
	i2, ok2 := elemOf(link.Val)
	if !ok1 || !ok2 {
		return "the Next store does not connect two elements of the collected slice", false
	}
	off := func(v ssa.Value) (ssa.Value, int64) {
		if bo, ok := v.(*ssa.BinOp); ok {
			if k, isK := an.ConstInt(bo.Y); isK {
				switch bo.Op {
				case token.ADD:
					return bo.X, k
				case token.SUB:
					return bo.X, -k
				}
			}
		}
		return v, 0
	}
	b1, o1 := off(i1)
	b2, o2 := off(i2)
	if b1 != b2 || o2-o1 != 1 {
		return "the Next store does not connect element i with element i+1", false
	}
	iv, isPhi := b1.(*ssa.Phi)
	loop := an.InnermostLoop(an.Loops(chainFn), link.Block())
	if !isPhi || loop == nil || iv.Block() != loop.Header {
		return "the linking store is not driven by a loop counter", false
	}
	// counter: starts so that the first link is X[0]→X[1], advances by one, runs to the end
	startOK, stepOK := false, false
	for k, pred := range loop.Header.Preds {
		ed := iv.Edges[k]
		if !loop.Blocks[pred] {
			if c0, ok := an.ConstInt(ed); ok && c0+o1 == 0 {
				startOK = true
			}
		} else {
			if eb, eo := off(ed); eb == ssa.Value(iv) && eo == 1 {
				stepOK = true
			}
		}
	}
	condOK := false
	if br, ok := an.BranchOf(loop.Header); ok {
		if bo, ok := br.If.Cond.(*ssa.BinOp); ok && bo.Op == token.LSS && loop.Blocks[br.True] {
			lb, lo := off(bo.X)
			// i+lo < len(X)+ro  with the last linked pair (i+o2) = len-1  ⇔  lo - ro = o2
			rv, ro := off(bo.Y)
			if call, ok := rv.(*ssa.Call); ok && lb == ssa.Value(iv) {
				if b, ok := call.Call.Value.(*ssa.Builtin); ok && b.Name() == "len" && an.SameValue(call.Call.Args[0], X) && lo-ro == o2 {
					condOK = true
				}
			}
		}
	}
	if !startOK || !stepOK || !condOK {
		return fmt.Sprintf("the linking loop does not visit every neighbouring pair once (start=%v step=%v bound=%v)", startOK, stepOK, condOK), false
	}
	// every iteration links (no skipping)
	ex2 := &an.Explorer{P: p, NoReturn: noReturn}
	loop.Bound(ex2)
	ex2.Effect = func(in ssa.Instruction, st *an.State) string {
		if in == ssa.Instruction(link) {
			return "link"
		}
		return ""
	}
	for _, o := range ex2.Run(chainFn, loop.BodyEntry(), loop.Header, nil) {
		n := 0
		for _, e := range o.Effects {
			if e == "link" {
				n++
			}
		}
		if o.End != "stop" || n != 1 {
			return "an iteration of the linking loop can skip its link", false
		}
	}
	// (4) the head is the first element
	headOK := false
	for _, ret := range an.Returns(chainFn) {
		if chainFn == ct && !an.IsNilConst(an.RetVal(ret, 1)) {
			continue
		}
		for _, s := range an.Sources(an.RetVal(ret, 0)) {
			if idx, ok := elemOf(s); ok {
				if k, isK := an.ConstInt(idx); isK && k == 0 {
					headOK = true
				} else {
					return "the helper returns an element other than the first", false
				}
			}
		}
	}
	if !headOK {
		return "the helper does not return the first element as the head", false
	}
	return fmt.Sprintf("every compiled job is appended once to the collected slice, which %s links pairwise in order and returns by its first element", an.Short(chainFn)), true
}

// tailPointerLinking recognises the third way of chaining the jobs: a pointer
// to the link the next job goes into (`tail := &head; …; *tail = j; tail =
// &j.Next`). Every φ of that pointer type takes only the address of the head
// variable, another such φ, or &j.Next of the job just compiled; each pass of
// the commands loop stores the compiled job through the pointer exactly once;
// a successful return gives the head variable's content.
func tailPointerLinking(c *an.Ctx, ct *ssa.Function, site *ssa.Call, inner *an.Loop, isJob func(ssa.Value) bool) (string, bool) {
	isTailType := func(t types.Type) bool {
		p1, ok := t.Underlying().(*types.Pointer)
		if !ok {
			return false
		}
		return an.TypeIs(p1.Elem(), "pkg/executor", "Job") && func() bool { _, isPtr := p1.Elem().Underlying().(*types.Pointer); return isPtr }()
	}
	var phis []*ssa.Phi
	an.EachInstr(ct, func(in ssa.Instruction) {
		if phi, ok := in.(*ssa.Phi); ok && isTailType(phi.Type()) {
			phis = append(phis, phi)
		}
	})
	if len(phis) == 0 {
		return "no pointer to a job link is carried round the loops", false
	}
	var head *ssa.Alloc
	for _, phi := range phis {
		for _, e := range phi.Edges {
			switch x := e.(type) {
			case *ssa.Phi:
				if !isTailType(x.Type()) {
					return "the link pointer takes a value of another kind", false
				}
			case *ssa.Alloc:
				if head != nil && head != x {
					return "the link pointer starts at two different variables", false
				}
				head = x
			case *ssa.FieldAddr:
				if an.AccessPath(x).LastField() != "Next" || !isJob(x.X) {
					return "the link pointer advances to something other than &job.Next of the job just compiled: " + an.Prov(x), false
				}
			default:
				return "the link pointer takes " + an.Prov(e), false
			}
		}
	}
	if head == nil {
		return "the link pointer never starts at a head variable", false
	}
	var tail *ssa.Phi
	for _, phi := range phis {
		if phi.Block() == inner.Header {
			tail = phi
		}
	}
	if tail == nil {
		return "no link pointer is carried round the commands loop", false
	}
	ex := &an.Explorer{P: c.P, NoReturn: noReturn}
	inner.Bound(ex)
	ex.Atom = func(v ssa.Value) (an.AVal, bool) {
		for _, e := range errOf(site) {
			if v == e {
				return an.AVal{K: an.ANil}, true
			}
		}
		return an.AVal{}, false
	}
	ex.Effect = func(in ssa.Instruction, st *an.State) string {
		sto, ok := in.(*ssa.Store)
		if !ok {
			return ""
		}
		if sto.Addr == ssa.Value(tail) {
			if isJob(sto.Val) {
				return "link(job)"
			}
			return "link(other)"
		}
		if fa, ok := sto.Addr.(*ssa.FieldAddr); ok && an.AccessPath(fa).LastField() == "Next" {
			return "next(other)"
		}
		return ""
	}
	outs := ex.RunFrom(ct, site, nil)
	n := 0
	for _, o := range outs {
		if o.End != "stop" {
			continue
		}
		n++
		if len(o.Effects) != 1 || o.Effects[0] != "link(job)" {
			return fmt.Sprintf("a pass of the commands loop does %v instead of storing the compiled job through the link pointer once", o.Effects), false
		}
		if v, ok := o.PhiIn[tail]; !ok || v == "keep" {
			return "the link pointer is not advanced on a pass", false
		}
	}
	if n == 0 {
		return "no pass of the commands loop completes", false
	}
	for _, ret := range an.Returns(ct) {
		if !an.IsNilConst(an.RetVal(ret, 1)) {
			continue
		}
		okRet := false
		for _, src := range an.ResolveAll(an.RetVal(ret, 0)) {
			if u, ok := src.(*ssa.UnOp); ok && u.Op == token.MUL && u.X == ssa.Value(head) {
				okRet = true
			}
		}
		if !okRet {
			return "a successful return does not give the head of the chain", false
		}
	}
	return "every compiled job is stored once through a pointer to the tail link, which then moves to the job's Next; the head variable is returned", true
}

// exitStatusOrigin: an exit status is something a command reported. The module never makes one itself
// (interp.NewExitStatus): an error manufactured to look like an exit status — for a command that was never
// started, a timeout, a rendering failure — is tolerated by allow_failure, turns a condition into "skip", and
// reports a status no command returned.
func exitStatusOrigin(c *an.Ctx, rule string) {
	p := c.P
	bad := false
	for _, fn := range p.Funcs {
		if !an.InModule(fn) {
			continue
		}
		an.EachInstr(fn, func(in ssa.Instruction) {
			call, ok := in.(*ssa.Call)
			if !ok {
				return
			}
			callee := call.Call.StaticCallee()
			if callee == nil || callee.Pkg == nil || callee.Pkg.Pkg.Path() != "mvdan.cc/sh/v3/interp" || callee.Name() != "NewExitStatus" {
				return
			}
			bad = true
			c.Bad(rule, an.Short(fn)+":NewExitStatus", call.Pos(), "%s manufactures an exit status (interp.NewExitStatus): the job walk and the condition check take every error that matches IsExitStatus for the status of a command that ran — allow_failure tolerates it, a condition turns it into \"skipped\" — so a failure that is not a command's own status is forgiven", an.Short(fn))
		})
	}
	if !bad {
		c.OK(rule, "module:exit-status-origin", token.NoPos, "no function of the module constructs an exit-status error: every one comes from the interpreter")
	}
}
