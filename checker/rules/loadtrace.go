package rules

import (
	"fmt"
	"go/types"
	"strings"

	"golang.org/x/tools/go/ssa"

	"taskverif/an"
)

// The Load trace: Loader.Load / LoadGlobalConfig explored with the helpers of
// internal/config inlined, except the phase functions themselves, which are
// the events. Each event carries, in its label, where its input comes from, so
// a clause "the loaded map goes through decode into buildFromDefinition and
// the result is merged into the destination" is a predicate on the trace and
// does not depend on which function the phases are called from.
type loadPhases struct {
	load, glob, globAPI, ld, dec, bfd, mg *ssa.Function
}

// globalLoader returns the function that does the work of loading the global configuration: LoadGlobalConfig, or,
// when that is only an entry point (locking, bookkeeping) that hands on to a single method of the loader and
// returns what it returns, that method. api is the exported entry point.
func globalLoader(p *an.Prog) (work, api *ssa.Function) {
	api = p.Func("internal/config", "Loader", "LoadGlobalConfig")
	work = api
	for i := 0; i < 2 && work != nil; i++ {
		var inner *ssa.Function
		n := 0
		an.EachInstr(work, func(in ssa.Instruction) {
			call, ok := in.(*ssa.Call)
			if !ok {
				return
			}
			f := call.Call.StaticCallee()
			if f == nil || !an.InModule(f) {
				return
			}
			n++
			// the results are returned as they are
			direct := false
			if call.Referrers() != nil {
				for _, ret := range an.Returns(work) {
					all := true
					for k := range ret.Results {
						ok := false
						for _, src := range an.Sources(an.RetVal(ret, k)) {
							if e, isE := src.(*ssa.Extract); isE && e.Tuple == ssa.Value(call) && e.Index == k {
								ok = true
							}
							if src == ssa.Value(call) {
								ok = true
							}
						}
						all = all && ok
					}
					direct = direct || all
				}
			}
			if direct && f.Signature.Recv() != nil && work.Signature.Recv() != nil && types.Identical(f.Signature.Recv().Type(), work.Signature.Recv().Type()) {
				inner = f
			}
		})
		if n != 1 || inner == nil {
			break
		}
		work = inner
	}
	return work, api
}

func resolveLoadPhases(p *an.Prog) *loadPhases {
	work, api := globalLoader(p)
	return &loadPhases{
		load:    p.Func("internal/config", "Loader", "Load"),
		glob:    work,
		globAPI: api,
		ld:      p.Func("internal/config", "Loader", "load"),
		dec:     p.Func("internal/config", "Loader", "decode"),
		bfd:     p.Func("internal/config", "", "buildFromDefinition"),
		mg:      p.Func("internal/config", "Config", "merge"),
	}
}

// loadTrace explores entry; all phase calls succeed.
func loadTrace(p *an.Prog, ph *loadPhases, entry *ssa.Function) []an.Outcome {
	phase := map[*ssa.Function]string{ph.glob: "global", ph.ld: "load", ph.dec: "decode", ph.bfd: "build", ph.mg: "merge"}
	if ph.globAPI != nil {
		phase[ph.globAPI] = "global"
	}
	if entry == ph.globAPI && ph.glob != nil {
		entry = ph.glob
	}
	isPhase := func(call *ssa.CallCommon) (string, bool) {
		if f := call.StaticCallee(); f != nil {
			if n, ok := phase[f]; ok && f != entry {
				return n, true
			}
		}
		return "", false
	}
	ex := &an.Explorer{P: p, NoReturn: noReturn, MaxDepth: 3, MaxVisits: 1,
		Inline: func(f *ssa.Function) bool {
			if _, isPh := phase[f]; isPh && f != entry {
				return false
			}
			return an.Outer(f).Pkg == entry.Pkg && f != entry && f != ph.load
		}}
	ex.Atom = func(v ssa.Value) (an.AVal, bool) {
		var call *ssa.Call
		switch x := v.(type) {
		case *ssa.Extract:
			call, _ = x.Tuple.(*ssa.Call)
		case *ssa.Call:
			call = x
		}
		if call == nil || !an.IsErrorType(v.Type()) {
			return an.AVal{}, false
		}
		if _, ok := isPhase(&call.Call); ok {
			return an.AVal{K: an.ANil}, true
		}
		return an.AVal{}, false
	}
	from := func(v ssa.Value, st *an.State, want string) string {
		for _, cand := range []ssa.Value{v, st.Root(v)} {
			for _, s := range an.Sources(cand) {
				s = st.Root(s)
				if e, ok := s.(*ssa.Extract); ok {
					if call, ok := e.Tuple.(*ssa.Call); ok {
						if n, ok := isPhase(&call.Call); ok && n == want && e.Index == 0 {
							return want
						}
					}
				}
			}
		}
		return "?" + an.FieldProv(st.Root(v))
	}
	ex.Effect = func(in ssa.Instruction, st *an.State) string {
		call, ok := in.(*ssa.Call)
		if !ok {
			return ""
		}
		n, ok := isPhase(&call.Call)
		if !ok {
			return ""
		}
		args := call.Call.Args
		switch n {
		case "decode":
			return "decode(" + from(args[1], st, "load") + ")"
		case "build":
			return "build(" + from(args[0], st, "decode") + ")"
		case "merge":
			return "merge(" + an.FieldProv(st.Root(args[0])) + "," + from(args[1], st, "build") + ")"
		}
		return n
	}
	return ex.Run(entry, entry.Blocks[0], nil, nil)
}

// loadPipeline checks, for entry ∈ {Load, LoadGlobalConfig}, the clauses named in want on every successful path:
//
//	"pipeline"     load → decode(of the loaded map) → build(of the decoded definition)
//	"merge"        the built configuration is merged into Loader.dst
//	"global-first" (Load) the global configuration is loaded before the project file
//
// optionalChain: success paths without any phase are allowed (LoadGlobalConfig's early returns).
func loadPipeline(c *an.Ctx, rule string, entry *ssa.Function, want map[string]bool, optionalChain bool) {
	p := c.P
	ph := resolveLoadPhases(p)
	if entry == nil || ph.ld == nil || ph.dec == nil || ph.bfd == nil || ph.mg == nil {
		c.Und(rule, "config.(*Loader):phases", 0, "load / decode / buildFromDefinition / Config.merge not all found")
		return
	}
	outs := loadTrace(p, ph, entry)
	bad := map[string]string{}
	nSuccess, nFull := 0, 0
	for _, o := range outs {
		if o.End != "return" || len(o.Ret) == 0 || o.Ret[len(o.Ret)-1].K == an.ANonNil {
			continue
		}
		nSuccess++
		ev := o.Effects
		idx := func(prefix string) int {
			for i, e := range ev {
				if e == prefix || strings.HasPrefix(e, prefix+"(") {
					return i
				}
			}
			return -1
		}
		il, id, ib, im, ig := idx("load"), idx("decode"), idx("build"), idx("merge"), idx("global")
		if il < 0 && id < 0 && ib < 0 && im < 0 {
			if !optionalChain {
				bad["pipeline"] = fmt.Sprintf("a successful return loads nothing (events %v)", ev)
				bad["merge"] = bad["pipeline"]
			}
			continue
		}
		nFull++
		if !(il >= 0 && id > il && ib > id && ev[id] == "decode(load)" && ev[ib] == "build(decode)") {
			bad["pipeline"] = fmt.Sprintf("the loaded map does not go through decode into buildFromDefinition (events %v)", ev)
		}
		if !(im > ib && ib >= 0 && strings.HasPrefix(ev[im], "merge(Loader.dst,") && strings.HasSuffix(ev[im], ",build)")) {
			bad["merge"] = fmt.Sprintf("the built configuration is not merged into the loader's destination (events %v)", ev)
		}
		if !(ig >= 0 && il > ig) {
			bad["global-first"] = fmt.Sprintf("the global configuration is not loaded before the project file (events %v)", ev)
		}
	}
	if nSuccess == 0 || nFull == 0 {
		for k := range want {
			bad[k] = fmt.Sprintf("no successful path of %s runs the loading phases (%d paths)", an.Short(entry), len(outs))
		}
	}
	okMsg := map[string]string{
		"pipeline":     "load → decode → buildFromDefinition, each fed by the previous",
		"merge":        "the built configuration is merged into the loader's destination",
		"global-first": "the global configuration is loaded before the project file",
	}
	for _, k := range []string{"pipeline", "merge", "global-first"} {
		if !want[k] {
			continue
		}
		if why, isBad := bad[k]; isBad {
			c.Bad(rule, an.Short(entry)+":"+k, entry.Pos(), "%s", why)
		} else {
			c.OK(rule, an.Short(entry)+":"+k, entry.Pos(), "%s (%d successful paths)", okMsg[k], nFull)
		}
	}
}
