package rules

import (
	"fmt"
	"go/token"
	"go/types"
	"strings"

	"golang.org/x/tools/go/ssa"

	"taskverif/an"
)

// The edge trace: one iteration of AddStage's loop over stage.DependsOn,
// with the helpers of pkg/scheduler inlined. It shows what is recorded for a
// dependency and how the cycle detector is started, wherever that code lives.

type edgeTraceResult struct {
	add      *ssa.Function
	loop     *an.Loop
	detector *ssa.Function
	okPaths  [][]string // paths on which the detector reported no cycle and the iteration went on
	errPaths []an.Outcome
	failRet  bool // with the detector failing, every path returns a non-nil error
	und      string
}

func cycleDetector(p *an.Prog) *ssa.Function {
	for _, fn := range p.Funcs {
		if inPkgs("pkg/scheduler")(fn) && returnsSentinel(fn, "ErrCycleDetected") {
			// the recursive one, if several return the sentinel
			for _, s := range p.CallSitesOf(fn) {
				if s.Parent() == fn {
					return fn
				}
			}
		}
	}
	for _, fn := range p.Funcs {
		if inPkgs("pkg/scheduler")(fn) && returnsSentinel(fn, "ErrCycleDetected") {
			return fn
		}
	}
	return nil
}

func edgeTrace(c *an.Ctx) *edgeTraceResult {
	p := c.P
	res := &edgeTraceResult{}
	add := p.Func("pkg/scheduler", "ExecutionGraph", "AddStage")
	if add == nil {
		res.und = "AddStage not found"
		return res
	}
	res.add = add
	// the loop over the dependencies: in AddStage, or in a helper of the package that AddStage hands its stage to
	// on every path and whose error it returns
	lf := add
	findLoop := func(f *ssa.Function) *an.Loop {
		for _, l := range an.Loops(f) {
			op := l.RangeOperand()
			if op != nil && an.AccessPath(an.ContentOf(op)).LastField() == "DependsOn" {
				return l
			}
		}
		return nil
	}
	res.loop = findLoop(add)
	if res.loop == nil {
		var addStage *ssa.Parameter
		for _, prm := range add.Params {
			if an.TypeIs(prm.Type(), "pkg/scheduler", "Stage") {
				addStage = prm
			}
		}
		an.EachInstr(add, func(in ssa.Instruction) {
			call, ok := in.(*ssa.Call)
			if !ok || res.loop != nil {
				return
			}
			h := call.Call.StaticCallee()
			if h == nil || h.Blocks == nil || an.Outer(h).Pkg != add.Pkg || findLoop(h) == nil {
				return
			}
			// handed AddStage's own stage, on every path, and the helper's error is AddStage's
			passes := false
			for _, a := range call.Call.Args {
				if addStage != nil && an.SameValue(a, addStage) {
					passes = true
				}
			}
			isCall := func(x ssa.Instruction) bool { return x == ssa.Instruction(call) }
			always, _ := an.OnAllPathsToExit(add.Blocks[0].Instrs[0], isCall, nil)
			if add.Blocks[0].Instrs[0] == ssa.Instruction(call) {
				always = true
			}
			fate := p.ErrFate(call, noReturn)
			if passes && always && (fate.Kind == "propagated" || fate.Kind == "converted") {
				lf = h
				res.loop = findLoop(h)
			}
		})
	}
	if res.loop == nil {
		res.und = "AddStage does not range over stage.DependsOn"
		return res
	}
	res.detector = cycleDetector(p)
	_, elems := res.loop.RangeKeyValue()
	var stageParam *ssa.Parameter
	for _, prm := range lf.Params {
		if an.TypeIs(prm.Type(), "pkg/scheduler", "Stage") {
			stageParam = prm
		}
	}
	classify := func(v ssa.Value, st *an.State) string {
		r := st.Root(v)
		for _, e := range elems {
			if r == e || st.SameRoot(v, e) {
				return "dep"
			}
		}
		ap := an.AccessPath(r)
		if ap.LastField() == "Name" && len(ap.Fields) == 1 && stageParam != nil && st.SameRoot(ap.Base, stageParam) {
			return "name"
		}
		return "other:" + an.Prov(r)
	}
	run := func(detectorFails bool) []an.Outcome {
		ex := &an.Explorer{P: p, NoReturn: noReturn, MaxDepth: 3,
			Inline: func(f *ssa.Function) bool {
				return an.Outer(f).Pkg == add.Pkg && f != add && f != lf && f != res.detector
			}}
		res.loop.Bound(ex)
		ex.AtomSt = func(v ssa.Value, st *an.State) (an.AVal, bool) {
			if call, ok := v.(*ssa.Call); ok && res.detector != nil {
				for _, callee := range p.Callees(&call.Call) {
					if callee == res.detector {
						if detectorFails {
							return an.AVal{K: an.ANonNil}, true
						}
						return an.AVal{K: an.ANil}, true
					}
				}
			}
			return an.AVal{}, false
		}
		ex.Effect = func(in ssa.Instruction, st *an.State) string {
			switch x := in.(type) {
			case *ssa.MapUpdate:
				ap := an.AccessPath(x.Map)
				if ap.Base == nil || (!an.TypeIs(st.Root(ap.Base).Type(), "pkg/scheduler", "ExecutionGraph") && !an.TypeIs(ap.Base.Type(), "pkg/scheduler", "ExecutionGraph")) {
					return ""
				}
				roles := resolveEdgeRoles(p)
				var events []string
				for _, u := range roles.edgeUpdates(x) {
					if u.role == "" {
						continue
					}
					key := classify(u.key, st)
					// (a struct entry is stored back under the key it was read with)
					if u.loc.sub >= 0 {
						if k0 := entryKeyOf(x); k0 == nil || classify(k0, st) != key || staleEntry(x) {
							events = append(events, fmt.Sprintf("%s[%s]+=replaces", u.role, key))
							continue
						}
					}
					val := "?"
					for _, src := range an.Sources(u.val) {
						call, ok := src.(*ssa.Call)
						if !ok {
							continue
						}
						if b, ok := call.Call.Value.(*ssa.Builtin); !ok || b.Name() != "append" {
							continue
						}
						baseOK := false
						if loc, k, ok := appendBaseRead(call.Call.Args[0]); ok && loc == u.loc && classify(k, st) == key {
							baseOK = true
						}
						elemsV := an.VariadicElems(call.Call.Args[1])
						if baseOK && len(elemsV) == 1 {
							val = classify(elemsV[0], st)
						} else if !baseOK {
							val = "replaces"
						}
					}
					events = append(events, fmt.Sprintf("%s[%s]+=%s", u.role, key, val))
				}
				return strings.Join(events, "|")
			case *ssa.Call:
				if res.detector == nil {
					return ""
				}
				for _, callee := range p.Callees(&x.Call) {
					if callee != res.detector {
						continue
					}
					start, marks := "other", "none"
					for _, a := range x.Call.Args {
						if b, ok := a.Type().Underlying().(*types.Basic); ok && b.Kind() == types.String {
							start = classify(a, st)
						}
						inIteration := func(in ssa.Instruction) bool {
							// allocated during this iteration: inside the loop, or in a helper inlined from it
							return in.Parent() != lf || res.loop.Blocks[in.Block()]
						}
						if _, isMap := a.Type().Underlying().(*types.Map); isMap {
							marks = "shared"
							if mm, ok := st.Root(a).(*ssa.MakeMap); ok && inIteration(mm) {
								marks = "fresh"
							}
						}
						// a search object that carries the mark set in a field
						if ptr, isPtr := a.Type().Underlying().(*types.Pointer); isPtr {
							if stt, isStruct := ptr.Elem().Underlying().(*types.Struct); isStruct {
								hasMap := false
								for i := 0; i < stt.NumFields(); i++ {
									if _, ok := stt.Field(i).Type().Underlying().(*types.Map); ok {
										hasMap = true
									}
								}
								if hasMap && marks == "none" {
									marks = "shared"
									if al, ok := st.Root(a).(*ssa.Alloc); ok && inIteration(al) && al.Referrers() != nil {
										freshMaps, otherMaps := 0, 0
										for _, r := range *al.Referrers() {
											fa, ok := r.(*ssa.FieldAddr)
											if !ok || fa.Referrers() == nil {
												continue
											}
											if _, isMapField := an.Deref(fa.Type()).Underlying().(*types.Map); !isMapField {
												continue
											}
											for _, rr := range *fa.Referrers() {
												sto, ok := rr.(*ssa.Store)
												if !ok || sto.Addr != ssa.Value(fa) {
													continue
												}
												if mm, ok := an.Resolve(sto.Val).(*ssa.MakeMap); ok && inIteration(mm) {
													freshMaps++
												} else {
													otherMaps++
												}
											}
										}
										// the adjacency map may be handed on; what matters is that some map of the object is new
										// and that the detector's marks are written into that one (checked by C05.3)
										if freshMaps > 0 {
											marks = "fresh"
										}
										_ = otherMaps
									}
								}
							}
						}
					}
					return fmt.Sprintf("detect(start=%s,marks=%s)", start, marks)
				}
			}
			return ""
		}
		return ex.Run(lf, res.loop.BodyEntry(), res.loop.Header, nil)
	}
	for _, o := range run(false) {
		if o.End == "stop" && o.StopBlock == res.loop.Header {
			res.okPaths = append(res.okPaths, o.Effects)
		} else if o.End != "bound" {
			res.errPaths = append(res.errPaths, o)
		}
	}
	res.failRet = true
	n := 0
	for _, o := range run(true) {
		sawDetect := false
		for _, e := range o.Effects {
			if strings.HasPrefix(e, "detect(") {
				sawDetect = true
			}
		}
		if !sawDetect {
			continue
		}
		n++
		if !(o.End == "return" && len(o.Ret) > 0 && o.Ret[len(o.Ret)-1].K == an.ANonNil) {
			res.failRet = false
		}
	}
	if n == 0 {
		res.failRet = false
	}
	return res
}

// edgeRecords checks that every dependency is recorded as from[dep]∪={name}, to[name]∪={dep}.
func edgeRecords(c *an.Ctx, rule string) {
	t := edgeTrace(c)
	if t.und != "" {
		c.Und(rule, "scheduler.(*ExecutionGraph).AddStage:trace", token.NoPos, "%s", t.und)
		return
	}
	key := an.Short(t.add) + ":every-dep"
	if len(t.okPaths) == 0 {
		c.Bad(rule, key, t.add.Pos(), "no path through one iteration over DependsOn goes on to the next dependency")
		return
	}
	var bad []string
	for _, ev := range t.okPaths {
		nf, nt := 0, 0
		for _, e := range ev {
			switch {
			case e == "from[dep]+=name":
				nf++
			case e == "to[name]+=dep":
				nt++
			case strings.HasPrefix(e, "from[") || strings.HasPrefix(e, "to["):
				bad = append(bad, "records "+e)
			}
		}
		if nf != 1 || nt != 1 {
			bad = append(bad, fmt.Sprintf("a dependency is recorded %d time(s) in from and %d time(s) in to (events %v)", nf, nt, ev))
		}
	}
	bad = dedup(bad)
	if len(bad) > 0 {
		c.Bad(rule, key, t.add.Pos(), "for a declared dependency the graph does not record exactly from[dep] ∪= {stage.Name} and to[stage.Name] ∪= {dep}: %s", strings.Join(bad, "; "))
	} else {
		c.OK(rule, key, t.add.Pos(), "all %d paths of an iteration record from[dep] ∪= {stage.Name} and to[stage.Name] ∪= {dep} exactly once", len(t.okPaths))
	}
	// error exits of an iteration must be real errors (no silent skip of a dependency)
	for _, o := range t.errPaths {
		if !(o.End == "return" && len(o.Ret) > 0 && o.Ret[len(o.Ret)-1].K == an.ANonNil) && o.End != "exit" && o.End != "panic" {
			c.Bad(rule, an.Short(t.add)+":skip", t.add.Pos(), "an iteration over DependsOn can end (%s) without recording the dependency and without an error", o.End)
		}
	}
}

// detectorStarted checks the C05.1 clauses about how the cycle detector is run.
func detectorStarted(c *an.Ctx, rule string) {
	t := edgeTrace(c)
	if t.und != "" {
		c.Und(rule, "scheduler.(*ExecutionGraph).AddStage:trace", token.NoPos, "%s", t.und)
		return
	}
	if t.detector == nil {
		c.Und(rule, "scheduler:cycle-detector", t.add.Pos(), "no function of pkg/scheduler returns ErrCycleDetected")
		return
	}
	every, startOK, fresh, after := true, true, true, true
	var why []string
	for _, ev := range t.okPaths {
		nd := 0
		lastRec, firstDet := -1, -1
		for i, e := range ev {
			if strings.HasPrefix(e, "detect(") {
				nd++
				if firstDet < 0 {
					firstDet = i
				}
				if !strings.Contains(e, "start=dep") && !strings.Contains(e, "start=name") {
					startOK = false
					why = append(why, e)
				}
				if !strings.Contains(e, "marks=fresh") {
					fresh = false
					why = append(why, e)
				}
			}
			if strings.HasPrefix(e, "from[") || strings.HasPrefix(e, "to[") {
				lastRec = i
			}
		}
		if nd == 0 {
			every = false
		}
		if firstDet >= 0 && firstDet < lastRec {
			after = false
		}
	}
	k := an.Short(t.add)
	c.Check(every && len(t.okPaths) > 0, rule, k+":detector-on-every-path", t.add.Pos(), "every recorded dependency is followed by a run of the cycle detector", "a dependency can be recorded without running the cycle detector")
	c.Check(after, rule, k+":detector-after-insert", t.add.Pos(), "the detector runs after the edge was inserted", "the detector runs before the edge it should check is inserted")
	c.Check(startOK, rule, k+":detector-start", t.add.Pos(), "the detector starts from an endpoint of the inserted edge", "the detector is not started from an endpoint of the inserted edge: "+strings.Join(dedup(why), " "))
	c.Check(fresh, rule, k+":fresh-marks", t.add.Pos(), "each insertion is checked with a newly allocated mark set", "the mark set handed to the detector is not allocated for this insertion: marks of an earlier check make later ones return early ("+strings.Join(dedup(why), " ")+")")
	c.Check(t.failRet, rule, k+":cycle-fails-AddStage", t.add.Pos(), "a detected cycle makes AddStage return a non-nil error", "a cycle reported by the detector does not make AddStage fail")
}
