package an

import (
	"fmt"
	"go/token"
	"go/types"
	"sort"
	"strings"

	"golang.org/x/tools/go/ssa"
)

// E5: layer chains. A value of type variables.Container is described by the
// ordered list of layers it was built from, lowest precedence first; a layer
// is labelled by where it was read from (provenance), never by position.

// Leaf is one layer.
type Leaf struct {
	Kind  string // field, key, map, param, unknown
	Label string
	Base  string // provenance of the object a field leaf was read from
}

func (l Leaf) String() string { return l.Label }

// Chain is an ordered list of layers, lowest precedence first.
type Chain []Leaf

func (c Chain) String() string {
	var parts []string
	for _, l := range c {
		parts = append(parts, l.Label)
	}
	return "[" + strings.Join(parts, " < ") + "]"
}

// Last returns the index of the last layer whose label matches, or -1.
func (c Chain) Last(match func(Leaf) bool) int {
	for i := len(c) - 1; i >= 0; i-- {
		if match(c[i]) {
			return i
		}
	}
	return -1
}

// Has reports whether a layer with that label is present.
func (c Chain) Has(label string) bool {
	return c.Last(func(l Leaf) bool { return l.Label == label }) >= 0
}

// Effective reduces the chain to the precedence that results when a later
// layer overrides an earlier one with the same provenance: layers ordered by
// their last occurrence.
func (c Chain) Effective() Chain {
	seen := map[string]bool{}
	var rev Chain
	for i := len(c) - 1; i >= 0; i-- {
		if !seen[c[i].Label] {
			seen[c[i].Label] = true
			rev = append(rev, c[i])
		}
	}
	for i, j := 0, len(rev)-1; i < j; i, j = i+1, j-1 {
		rev[i], rev[j] = rev[j], rev[i]
	}
	return rev
}

// Before reports whether layer a has lower effective precedence than b.
func (c Chain) Before(a, b string) bool {
	e := c.Effective()
	ia, ib := -1, -1
	for i, l := range e {
		if l.Label == a {
			ia = i
		}
		if l.Label == b {
			ib = i
		}
	}
	return ia >= 0 && ib >= 0 && ia < ib
}

// ChainCfg configures chain extraction.
type ChainCfg struct {
	P *Prog
	// IsMerge / IsWith / IsFromMap / IsEmpty classify calls by callee name.
	IsMerge, IsWith, IsFromMap, IsEmpty func(name string) bool
	// ParamDepth bounds how far parameters are resolved through callers.
	ParamDepth int
	// MapLabel may give a label to the argument of FromMap.
	MapLabel func(v ssa.Value) string
	// Leaf may declare a value a leaf of its own (an input of the function under analysis that arrives
	// as a field of an options struct rather than as a parameter).
	Leaf func(v ssa.Value) (Chain, bool)
}

// TypeField labels a field by its owner's type name: "Task.Env".
func TypeField(fa *ssa.FieldAddr) string {
	t := Deref(fa.X.Type())
	name := types.TypeString(t, func(*types.Package) string { return "" })
	if n, ok := t.(*types.Named); ok {
		name = TypeName(n)
	}
	return name + "." + fieldName(fa.X.Type(), fa.Field)
}

// Chains returns the alternative layer chains of v.
func (cfg *ChainCfg) Chains(v ssa.Value) []Chain {
	return cfg.chains(v, cfg.ParamDepth, map[ssa.Value]bool{}, nil)
}

type binding map[*ssa.Parameter][]Chain

func cross(as, bs []Chain) []Chain {
	var out []Chain
	for _, a := range as {
		for _, b := range bs {
			c := append(append(Chain{}, a...), b...)
			out = append(out, c)
		}
	}
	return dedupChains(out)
}

func dedupChains(cs []Chain) []Chain {
	seen := map[string]bool{}
	var out []Chain
	for _, c := range cs {
		k := c.String()
		if !seen[k] {
			seen[k] = true
			out = append(out, c)
		}
	}
	sort.Slice(out, func(i, j int) bool { return out[i].String() < out[j].String() })
	return out
}

func (cfg *ChainCfg) chains(v ssa.Value, depth int, busy map[ssa.Value]bool, bind binding) []Chain {
	if v == nil {
		return []Chain{{}}
	}
	if busy[v] {
		// the value depends on itself: a container carried round a loop and merged into on every pass
		// (each pass adds a layer over what the earlier passes left)
		return []Chain{{Leaf{"unknown", "loop-carried:" + Prov(v), ""}}}
	}
	busy[v] = true
	defer delete(busy, v)

	if cfg.Leaf != nil {
		if ch, ok := cfg.Leaf(v); ok {
			return []Chain{ch}
		}
	}
	all := ResolveAll(v)
	if len(all) != 1 {
		var out []Chain
		for _, a := range all {
			out = append(out, cfg.chains1(a, depth, busy, bind)...)
		}
		return dedupChains(out)
	}
	return cfg.chains1(all[0], depth, busy, bind)
}

func (cfg *ChainCfg) chains1(v ssa.Value, depth int, busy map[ssa.Value]bool, bind binding) []Chain {
	switch x := v.(type) {
	case *ssa.Const:
		if x.Value == nil {
			return []Chain{{}}
		}
	case *ssa.Phi:
		var out []Chain
		for _, e := range x.Edges {
			if e == ssa.Value(x) {
				continue
			}
			out = append(out, cfg.chains(e, depth, busy, bind)...)
		}
		return dedupChains(out)
	case *ssa.Parameter:
		if b, ok := bind[x]; ok {
			return b
		}
		if depth > 0 {
			fn := x.Parent()
			idx := -1
			for i, p := range fn.Params {
				if p == x {
					idx = i
				}
			}
			var out []Chain
			sites := cfg.P.CallSitesOf(fn)
			for _, site := range sites {
				args := site.Common().Args
				ai := idx
				if site.Common().IsInvoke() {
					ai = idx - 1
				}
				if ai < 0 || ai >= len(args) {
					continue
				}
				out = append(out, cfg.chains(args[ai], depth-1, busy, nil)...)
			}
			if len(out) > 0 {
				return dedupChains(out)
			}
		}
		return []Chain{{Leaf{"param", "param:" + x.Name(), ""}}}
	case *ssa.Call:
		name := ShortCallee(&x.Call)
		recvArgs := func() (ssa.Value, []ssa.Value) {
			if x.Call.IsInvoke() {
				return x.Call.Value, x.Call.Args
			}
			if len(x.Call.Args) > 0 {
				return x.Call.Args[0], x.Call.Args[1:]
			}
			return nil, nil
		}
		switch {
		case cfg.IsMerge(name):
			recv, args := recvArgs()
			return cross(cfg.chains(recv, depth, busy, bind), cfg.chains(args[0], depth, busy, bind))
		case cfg.IsWith(name):
			recv, args := recvArgs()
			key := "?"
			if s, ok := ConstString(args[0]); ok {
				key = s
			}
			leaf := Leaf{"key", fmt.Sprintf("key:%s=%s", key, FieldProv(args[1])), ""}
			return cross(cfg.chains(recv, depth, busy, bind), []Chain{{leaf}})
		case cfg.IsFromMap(name):
			label := ""
			if cfg.MapLabel != nil {
				label = cfg.MapLabel(x.Call.Args[0])
			}
			if label == "" {
				label = cfg.P.DeepFieldProv(x.Call.Args[0])
			}
			return []Chain{{Leaf{"map", "map:" + label, ""}}}
		case cfg.IsEmpty(name):
			return []Chain{{}}
		}
		// a module function returning a container: look into its returns
		if callee := x.Call.StaticCallee(); callee != nil && callee.Blocks != nil && InModule(callee) && (depth > 0 || singleModuleCallee(cfg.P, x) != nil) {
			b := binding{}
			for i, p := range callee.Params {
				if i < len(x.Call.Args) {
					b[p] = cfg.chains(x.Call.Args[i], depth, busy, bind)
				}
			}
			var out []Chain
			for _, ret := range Returns(callee) {
				for i := range ret.Results {
					if types.Identical(ret.Results[i].Type(), x.Type()) {
						d2 := depth - 1
						if d2 < 0 {
							d2 = 0
						}
						out = append(out, cfg.chains(RetVal(ret, i), d2, busy, b)...)
					}
				}
			}
			if len(out) > 0 {
				return dedupChains(out)
			}
		}
		return []Chain{{Leaf{"unknown", "call:" + name, ""}}}
	case *ssa.UnOp:
		if x.Op == token.MUL {
			if fa, ok := x.X.(*ssa.FieldAddr); ok {
				if fresh, _ := FreshBase(fa.X); fresh {
					// a field of an object built here: what was stored into it
					if fwd, ok := ForwardLoad(x); ok {
						return cfg.chains(fwd[0], depth, busy, bind)
					}
				}
				// a field of an object a constructor helper has just returned: what the helper stored into it
				if vals, call, ok := ForwardLoadCtor(x); ok {
					callee := call.Call.StaticCallee()
					b := binding{}
					for i, p := range callee.Params {
						if i < len(call.Call.Args) {
							b[p] = cfg.chains(call.Call.Args[i], depth, busy, bind)
						}
					}
					var out []Chain
					for _, val := range vals {
						out = append(out, cfg.chains(val, depth, busy, b)...)
					}
					return dedupChains(out)
				}
				// a struct value handed over by a helper (spilled into a local): what its literal's field was given
				if _, isLocal := fa.X.(*ssa.Alloc); isLocal {
					if srcs := cfg.P.DeepSources(x, 3, true); len(srcs) > 0 && !(len(srcs) == 1 && srcs[0] == ssa.Value(x)) {
						var out []Chain
						for _, src := range srcs {
							if src != ssa.Value(x) {
								out = append(out, cfg.chains(src, depth, busy, bind)...)
							}
						}
						if len(out) > 0 {
							return dedupChains(out)
						}
					}
				}
				return []Chain{{Leaf{"field", TypeField(fa), Prov(AccessPath(fa.X).Base)}}}
			}
			if g, ok := x.X.(*ssa.Global); ok {
				return []Chain{{Leaf{"field", "global:" + g.Name(), ""}}}
			}
		}
	case *ssa.Field:
		// a field of a struct value handed over by a helper: what the literal's field was given
		if srcs := cfg.P.DeepSources(x, 3, true); len(srcs) > 0 && !(len(srcs) == 1 && srcs[0] == ssa.Value(x)) {
			var out []Chain
			for _, src := range srcs {
				if src == ssa.Value(x) {
					continue
				}
				out = append(out, cfg.chains(src, depth, busy, bind)...)
			}
			if len(out) > 0 {
				return dedupChains(out)
			}
		}
		st := Deref(x.X.Type())
		name := typeLabel(st)
		return []Chain{{Leaf{"field", name + "." + fieldName(x.X.Type(), x.Field), Prov(x.X)}}}
	case *ssa.Alloc:
		// a fresh *Variables{} literal
		return []Chain{{}}
	case *ssa.TypeAssert:
		return cfg.chains(x.X, depth, busy, bind)
	case *ssa.Extract:
		// a container returned (with an error) by a helper of the same package
		if call, ok := x.Tuple.(*ssa.Call); ok {
			if callee := singleModuleCallee(cfg.P, call); callee != nil {
				b := binding{}
				for i, p := range callee.Params {
					if i < len(call.Call.Args) {
						b[p] = cfg.chains(call.Call.Args[i], depth, busy, bind)
					}
				}
				var out []Chain
				for _, ret := range Returns(callee) {
					if x.Index < len(ret.Results) && !IsNilConst(RetVal(ret, x.Index)) {
						out = append(out, cfg.chains(RetVal(ret, x.Index), depth, busy, b)...)
					}
				}
				if len(out) > 0 {
					return dedupChains(out)
				}
			}
		}
		return []Chain{{Leaf{"unknown", "result:" + Prov(x), ""}}}
	}
	return []Chain{{Leaf{"unknown", "?" + Prov(v), ""}}}
}

// FieldProv renders provenance with type-qualified fields: a value loaded
// from x.F is "T.F" where T is the static type of x.
func FieldProv(v ssa.Value) string {
	all := ResolveAll(v)
	if len(all) == 1 {
		v = all[0]
	}
	switch x := v.(type) {
	case *ssa.UnOp:
		if x.Op == token.MUL {
			if fa, ok := x.X.(*ssa.FieldAddr); ok {
				return TypeField(fa)
			}
		}
	case *ssa.Field:
		st := Deref(x.X.Type())
		return typeLabel(st) + "." + fieldName(x.X.Type(), x.Field)
	case *ssa.MakeInterface:
		return FieldProv(x.X)
	case *ssa.FieldAddr:
		return TypeField(x)
	case *ssa.Slice:
		if elems := VariadicElems(x); len(elems) > 0 {
			var parts []string
			for _, e := range elems {
				parts = append(parts, FieldProv(e))
			}
			return "[" + strings.Join(parts, ",") + "]"
		}
		return FieldProv(x.X) + "[:]"
	case *ssa.TypeAssert:
		return FieldProv(x.X)
	case *ssa.Extract:
		if call, ok := x.Tuple.(*ssa.Call); ok {
			return fmt.Sprintf("%s()#%d", lastSeg(ShortCallee(&call.Call)), x.Index)
		}
		if lk, ok := x.Tuple.(*ssa.Lookup); ok && x.Index == 0 {
			return FieldProv(lk)
		}
	case *ssa.Lookup:
		return FieldProv(x.X) + "[" + FieldProv(x.Index) + "]"
	case *ssa.Call:
		// a defensive copy of a list is, for provenance, the list
		if arg, ok := CopyHelperArg(x); ok {
			return FieldProv(arg)
		}
		var args []string
		if x.Call.IsInvoke() {
			args = append(args, FieldProv(x.Call.Value))
		}
		for _, a := range x.Call.Args {
			args = append(args, FieldProv(a))
		}
		name := lastSeg(ShortCallee(&x.Call))
		if x.Call.IsInvoke() {
			name = x.Call.Method.Name()
		}
		return name + "(" + strings.Join(args, ",") + ")"
	case *ssa.MakeMap:
		// map literal: list the constant keys stored into it
		var keys []string
		if refs := x.Referrers(); refs != nil {
			for _, r := range *refs {
				if mu, ok := r.(*ssa.MapUpdate); ok {
					if s, ok := ConstString(mu.Key); ok {
						keys = append(keys, s+"="+FieldProv(mu.Value))
					} else {
						keys = append(keys, "?")
					}
				}
			}
		}
		sort.Strings(keys)
		return "{" + strings.Join(keys, ",") + "}"
	case *ssa.Const:
		if x.Value != nil {
			return x.Value.ExactString()
		}
		return "nil"
	case *ssa.Parameter:
		return "param:" + x.Name()
	}
	return Prov(v)
}

func lastSeg(s string) string {
	if i := strings.LastIndex(s, "/"); i >= 0 {
		return s[i+1:]
	}
	return s
}

// VariadicElems returns the values stored into the slice literal v (the
// argument list of a variadic call), in index order.
func VariadicElems(v ssa.Value) []ssa.Value {
	var out []ssa.Value
	for _, src := range Sources(v) {
		sl, ok := src.(*ssa.Slice)
		if !ok {
			continue
		}
		al, ok := sl.X.(*ssa.Alloc)
		if !ok || al.Referrers() == nil {
			continue
		}
		byIdx := map[int64]ssa.Value{}
		max := int64(-1)
		for _, r := range *al.Referrers() {
			ia, ok := r.(*ssa.IndexAddr)
			if !ok || ia.Referrers() == nil {
				continue
			}
			idx, ok := ConstInt(ia.Index)
			if !ok {
				continue
			}
			for _, rr := range *ia.Referrers() {
				if st, ok := rr.(*ssa.Store); ok {
					byIdx[idx] = st.Val
					if idx > max {
						max = idx
					}
				}
			}
		}
		for i := int64(0); i <= max; i++ {
			out = append(out, byIdx[i])
		}
	}
	return out
}

// DeepFieldProv is FieldProv after looking through module helper functions
// (a map returned by a helper is labelled by what the helper returns).
func (p *Prog) DeepFieldProv(v ssa.Value) string {
	srcs := p.DeepSources(v, 3, false)
	if len(srcs) == 0 {
		return FieldProv(v)
	}
	seen := map[string]bool{}
	var labels []string
	for _, s := range srcs {
		if IsNilConst(s) {
			continue
		}
		l := FieldProv(s)
		if !seen[l] {
			seen[l] = true
			labels = append(labels, l)
		}
	}
	sort.Strings(labels)
	if len(labels) == 1 {
		return labels[0]
	}
	if len(labels) == 0 {
		return "nil"
	}
	return "{" + strings.Join(labels, "|") + "}"
}

// DeepFieldProvCallers is DeepFieldProv that also follows parameters to the
// arguments at their call sites.
func (p *Prog) DeepFieldProvCallers(v ssa.Value) string {
	srcs := p.DeepSources(v, 3, true)
	if len(srcs) == 0 {
		return FieldProv(v)
	}
	seen := map[string]bool{}
	var labels []string
	for _, s := range srcs {
		l := FieldProv(s)
		if !seen[l] {
			seen[l] = true
			labels = append(labels, l)
		}
	}
	sort.Strings(labels)
	if len(labels) == 1 {
		return labels[0]
	}
	return "{" + strings.Join(labels, "|") + "}"
}

// SameDeep reports whether a and b denote the same object once helper
// parameters, helper results and set-once fields of builder objects are
// looked through: both have deep sources and the sets coincide.
func (p *Prog) SameDeep(a, b ssa.Value) bool {
	if SameValue(a, b) {
		return true
	}
	sa, sb := p.DeepSources(a, 3, true), p.DeepSources(b, 3, true)
	if len(sa) == 0 || len(sa) != len(sb) {
		return false
	}
	for _, x := range sa {
		found := false
		for _, y := range sb {
			if x == y {
				found = true
			}
		}
		if !found {
			return false
		}
	}
	return true
}

// typeLabel is the unqualified name of t as the rules know it (TypeName for named types of the module).
func typeLabel(t types.Type) string {
	if n, ok := t.(*types.Named); ok {
		return TypeName(n)
	}
	return types.TypeString(t, func(*types.Package) string { return "" })
}
