package an

import (
	"go/token"

	"golang.org/x/tools/go/ssa"
)

// Forward value flow ("where does this value end up"): from a set of seed
// values the content is followed through conversions, slicing, indexing,
// ranging, string/bytes helpers of other modules (their results carry what
// their arguments carried), map and element writes (the written container
// carries it), local cells, and into module callees (the parameter is a seed
// there; a callee that returns carried content makes the call's result carry
// it). It is a may-analysis used for who-may-receive rules: a Use is every
// call that is handed carried content and every store of it.

// FlowUse is one place carried content reaches.
type FlowUse struct {
	In  ssa.Instruction // *ssa.Call / *ssa.Go / *ssa.Defer (content is argument Arg) or *ssa.Store (Arg = -1)
	Arg int
	Fn  *ssa.Function
}

type flowCtx struct {
	p     *Prog
	uses  []FlowUse
	seen  map[*ssa.Function]map[int]bool // callee/param already descended
	depth int
}

// FlowsFrom lists the uses of the content of the seeds (all values of fn), following module callees maxDepth deep.
func (p *Prog) FlowsFrom(fn *ssa.Function, seeds []ssa.Value, maxDepth int) []FlowUse {
	fc := &flowCtx{p: p, seen: map[*ssa.Function]map[int]bool{}, depth: maxDepth}
	fc.flow(fn, seeds, 0)
	return fc.uses
}

// flow returns whether fn can return carried content.
func (fc *flowCtx) flow(fn *ssa.Function, seeds []ssa.Value, depth int) bool {
	if fn == nil || fn.Blocks == nil {
		return true
	}
	derived := map[ssa.Value]bool{}
	for _, s := range seeds {
		derived[s] = true
	}
	cells := map[ssa.Value]bool{} // allocs / maps / slices that hold carried content
	retDerived := false
	fns := WithAnon(fn)
	for changed := true; changed; {
		changed = false
		mark := func(v ssa.Value) {
			if v != nil && !derived[v] {
				derived[v] = true
				changed = true
			}
		}
		markCell := func(v ssa.Value) {
			for _, r := range append(ResolveAll(v), v) {
				if r != nil && !cells[r] {
					cells[r] = true
					changed = true
				}
			}
		}
		isD := func(v ssa.Value) bool { return v != nil && derived[v] }
		inCell := func(v ssa.Value) bool {
			if cells[v] {
				return true
			}
			for _, r := range ResolveAll(v) {
				if cells[r] {
					return true
				}
			}
			return false
		}
		for _, f := range fns {
			// free variables of closures bound to derived values
			EachInstr(f, func(in ssa.Instruction) {
				switch x := in.(type) {
				case *ssa.MakeClosure:
					if cl, ok := x.Fn.(*ssa.Function); ok {
						for i, b := range x.Bindings {
							if (isD(b) || inCell(b)) && i < len(cl.FreeVars) {
								if isD(b) {
									mark(cl.FreeVars[i])
								}
								if inCell(b) {
									markCell(cl.FreeVars[i])
								}
							}
						}
					}
				case *ssa.Slice:
					if isD(x.X) {
						mark(x)
					}
				case *ssa.Convert:
					if isD(x.X) {
						mark(x)
					}
				case *ssa.ChangeType:
					if isD(x.X) {
						mark(x)
					}
				case *ssa.ChangeInterface:
					if isD(x.X) {
						mark(x)
					}
				case *ssa.MakeInterface:
					if isD(x.X) {
						mark(x)
					}
				case *ssa.TypeAssert:
					if isD(x.X) {
						mark(x)
					}
				case *ssa.Extract:
					if isD(x.Tuple) {
						mark(x)
					}
				case *ssa.Phi:
					for _, e := range x.Edges {
						if isD(e) {
							mark(x)
						}
					}
				case *ssa.BinOp:
					if x.Op == token.ADD && (isD(x.X) || isD(x.Y)) {
						mark(x)
					}
				case *ssa.Index:
					if isD(x.X) {
						mark(x)
					}
				case *ssa.Lookup:
					if isD(x.X) || inCell(x.X) {
						mark(x)
					}
				case *ssa.Range:
					if isD(x.X) || inCell(x.X) {
						mark(x)
					}
				case *ssa.Next:
					if isD(x.Iter) {
						mark(x)
					}
				case *ssa.Field:
					if isD(x.X) {
						mark(x)
					}
				case *ssa.IndexAddr:
					if isD(x.X) || inCell(x.X) {
						mark(x)
					}
				case *ssa.FieldAddr:
					if isD(x.X) {
						mark(x)
					}
				case *ssa.UnOp:
					if x.Op == token.MUL && (isD(x.X) || inCell(x.X)) {
						mark(x)
					}
				case *ssa.MapUpdate:
					if isD(x.Key) || isD(x.Value) {
						markCell(x.Map)
						mark(x.Map)
					}
				case *ssa.Store:
					if isD(x.Val) {
						switch a := x.Addr.(type) {
						case *ssa.IndexAddr:
							markCell(a.X)
							mark(a.X)
						default:
							markCell(x.Addr)
						}
					}
				case *ssa.Return:
					for _, r := range x.Results {
						if isD(r) || inCell(r) {
							retDerived = true
						}
					}
				case ssa.CallInstruction:
					cc := x.Common()
					any := false
					for _, a := range cc.Args {
						if isD(a) || inCell(a) {
							any = true
						}
					}
					if cc.IsInvoke() && (isD(cc.Value) || inCell(cc.Value)) {
						any = true
					}
					if !any {
						return
					}
					v, _ := in.(ssa.Value)
					if b, ok := cc.Value.(*ssa.Builtin); ok {
						switch b.Name() {
						case "append":
							mark(v)
						case "copy":
							if isD(cc.Args[1]) {
								markCell(cc.Args[0])
								mark(cc.Args[0])
							}
						}
						return
					}
					callees := fc.p.Callees(cc)
					module := false
					for _, callee := range callees {
						if !InModule(callee) || callee.Blocks == nil {
							continue
						}
						module = true
						if depth >= fc.depth {
							mark(v)
							continue
						}
						var ps []ssa.Value
						off := 0
						if cc.IsInvoke() {
							off = 1
							if isD(cc.Value) || inCell(cc.Value) {
								ps = append(ps, callee.Params[0])
							}
						}
						key := 0
						for i, a := range cc.Args {
							if (isD(a) || inCell(a)) && i+off < len(callee.Params) {
								ps = append(ps, callee.Params[i+off])
								key |= 1 << uint(i+off)
							}
						}
						if fc.seen[callee] == nil {
							fc.seen[callee] = map[int]bool{}
						}
						if fc.seen[callee][key] {
							mark(v)
							continue
						}
						fc.seen[callee][key] = true
						if fc.flow(callee, ps, depth+1) {
							mark(v)
						}
					}
					if !module {
						// a function of another module: its result carries what its arguments carried
						mark(v)
					}
				}
			})
		}
	}
	// uses
	for _, f := range fns {
		EachInstr(f, func(in ssa.Instruction) {
			switch x := in.(type) {
			case *ssa.Store:
				if derived[x.Val] {
					fc.uses = append(fc.uses, FlowUse{In: in, Arg: -1, Fn: f})
				}
			case ssa.CallInstruction:
				cc := x.Common()
				if _, ok := cc.Value.(*ssa.Builtin); ok {
					return
				}
				for i, a := range cc.Args {
					if derived[a] {
						fc.uses = append(fc.uses, FlowUse{In: in, Arg: i, Fn: f})
					}
				}
			}
		})
	}
	return retDerived
}
