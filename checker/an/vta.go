package an

import (
	"golang.org/x/tools/go/callgraph"
	"golang.org/x/tools/go/callgraph/cha"
	"golang.org/x/tools/go/callgraph/vta"
	"golang.org/x/tools/go/ssa"
	"golang.org/x/tools/go/ssa/ssautil"
)

// buildVTA computes the whole-program VTA call graph (seeded with CHA) and
// keeps, for call sites inside module functions, the module callees it
// resolves. The thorough tier uses it for calls the quick tier cannot resolve
// (function values, interfaces implemented outside the module).
func (p *Prog) buildVTA() {
	all := ssautil.AllFunctions(p.SSA)
	g := vta.CallGraph(all, cha.CallGraph(p.SSA))
	p.vta = map[ssa.CallInstruction][]*ssa.Function{}
	nodes, edges, modEdges := 0, 0, 0
	callgraph.GraphVisitEdges(g, func(e *callgraph.Edge) error {
		edges++
		if e.Site == nil || e.Caller == nil || e.Callee == nil {
			return nil
		}
		if !InModule(e.Caller.Func) || e.Callee.Func == nil {
			return nil
		}
		if InModule(e.Callee.Func) && e.Callee.Func.Synthetic == "" {
			p.vta[e.Site] = append(p.vta[e.Site], e.Callee.Func)
			modEdges++
		}
		return nil
	})
	nodes = len(g.Nodes)
	p.vtaStats = map[string]int{"nodes": nodes, "edges": edges, "module_edges": modEdges, "functions": len(all)}
}

// VTACallees returns what the whole-program graph resolves for a call site.
func (p *Prog) VTACallees(site ssa.CallInstruction) []*ssa.Function {
	if p.vta == nil {
		return nil
	}
	return p.vta[site]
}
