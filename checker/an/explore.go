package an

import (
	"fmt"
	"go/constant"
	"go/token"
	"go/types"
	"os"
	"runtime"
	"sort"
	"strings"

	"golang.org/x/tools/go/ssa"
)

// E2: guarded-effect tables. The explorer walks the CFG of a region with a
// set of "atoms" seeded to constants (one row of a finite decision table),
// folds every branch condition it can compute from them, forks on the rest,
// and reports the sequences of effects on feasible paths. Nothing is
// executed; values are drawn from the finite lattice {unknown, constant,
// nil, non-nil}.

// AKind is the abstract value kind.
type AKind int

const (
	AUnknown AKind = iota
	AConst
	ANil
	ANonNil
	// AStruct: a struct value whose fields (by index) are known as far as S says
	AStruct
)

// AVal is an abstract value.
type AVal struct {
	K AKind
	C constant.Value
	S map[int]AVal // AStruct only
}

func (a AVal) String() string {
	switch a.K {
	case AConst:
		return a.C.ExactString()
	case ANil:
		return "nil"
	case ANonNil:
		return "non-nil"
	case AStruct:
		return "struct"
	}
	return "?"
}

// Bool builds a constant boolean value.
func ABool(b bool) AVal { return AVal{K: AConst, C: constant.MakeBool(b)} }

// AInt builds a constant integer value.
func AInt(i int64) AVal { return AVal{K: AConst, C: constant.MakeInt64(i)} }

// AStr builds a constant string.
func AStr(s string) AVal { return AVal{K: AConst, C: constant.MakeString(s)} }

// IsBool reports a known boolean.
func (a AVal) IsBool() (bool, bool) {
	if a.K == AConst && a.C.Kind() == constant.Bool {
		return constant.BoolVal(a.C), true
	}
	return false, false
}

// State is the per-path state.
type State struct {
	ex      *Explorer
	env     map[ssa.Value]AVal
	cells   map[ssa.Value]AVal // local cells (Alloc / FreeVar) → content
	fields  map[string]AVal    // access-path string → content
	visits  map[*ssa.BasicBlock]int
	effects []string
	unknown []string
	defers  [][]*ssa.Defer // one frame per active function
	depth   int
	// bind maps a parameter (or free variable) of an inlined callee to the
	// caller's value it was called with, so that identities survive inlining
	bind map[ssa.Value]ssa.Value
	// stack of call sites being inlined (innermost last)
	stack []ssa.Instruction
	// phiSrc records which incoming value each φ took on this path
	phiSrc map[*ssa.Phi]ssa.Value
	// cellVal records, per local cell, the SSA value last stored into it on this path (identity, where cells
	// holds the abstract content): a named result assigned from a call and read back is that call's result
	cellVal map[ssa.Value]ssa.Value
	// elems / elemVal: the same for the elements of local arrays written at indices known on the path (a literal
	// table that is ranged over): content and identity per (array, index)
	elems   map[ssa.Value]map[int64]AVal
	elemVal map[ssa.Value]map[int64]ssa.Value
}

func (s *State) clone() *State {
	n := &State{ex: s.ex, env: map[ssa.Value]AVal{}, cells: map[ssa.Value]AVal{}, fields: map[string]AVal{},
		visits: map[*ssa.BasicBlock]int{}, depth: s.depth, bind: map[ssa.Value]ssa.Value{}}
	for k, v := range s.bind {
		n.bind[k] = v
	}
	n.stack = append([]ssa.Instruction{}, s.stack...)
	if len(s.phiSrc) > 0 {
		n.phiSrc = map[*ssa.Phi]ssa.Value{}
		for k, v := range s.phiSrc {
			n.phiSrc[k] = v
		}
	}
	for k, v := range s.env {
		n.env[k] = v
	}
	if len(s.cellVal) > 0 {
		n.cellVal = map[ssa.Value]ssa.Value{}
		for k, v := range s.cellVal {
			n.cellVal[k] = v
		}
	}
	if len(s.elems) > 0 {
		n.elems = map[ssa.Value]map[int64]AVal{}
		n.elemVal = map[ssa.Value]map[int64]ssa.Value{}
		for a, m := range s.elems {
			n.elems[a] = map[int64]AVal{}
			for k, v := range m {
				n.elems[a][k] = v
			}
		}
		for a, m := range s.elemVal {
			n.elemVal[a] = map[int64]ssa.Value{}
			for k, v := range m {
				n.elemVal[a][k] = v
			}
		}
	}
	for k, v := range s.cells {
		n.cells[k] = v
	}
	for k, v := range s.fields {
		n.fields[k] = v
	}
	for k, v := range s.visits {
		n.visits[k] = v
	}
	n.effects = append([]string{}, s.effects...)
	n.unknown = append([]string{}, s.unknown...)
	for _, f := range s.defers {
		n.defers = append(n.defers, append([]*ssa.Defer{}, f...))
	}
	return n
}

// Explorer configures one table extraction.
type Explorer struct {
	P *Prog
	// Atom seeds the value of v for the current row (ok=false: not an atom).
	Atom func(v ssa.Value) (AVal, bool)
	// AtomSt is Atom with access to the path state (bindings of inlined parameters).
	AtomSt func(v ssa.Value, st *State) (AVal, bool)
	// Effect labels an executed instruction ("" = not an effect).
	Effect func(in ssa.Instruction, st *State) string
	// Inline decides whether a module callee is explored in place.
	Inline   func(fn *ssa.Function) bool
	MaxDepth int
	// Stop blocks end a path when entered.
	Stop map[*ssa.BasicBlock]bool
	// StopPred restricts a stop block to entries from the given predecessor
	// (a loop's exit block stops the path only when the loop ran out, not
	// when it is reached by a break).
	StopPred map[*ssa.BasicBlock]*ssa.BasicBlock
	// NoReturn names callees that never return (process exit).
	NoReturn func(name string) bool
	// MaxVisits bounds how often one path may enter the same block.
	MaxVisits int
	// paths explored (for evidence)
	Paths int
	// MaxPaths bounds the number of explored paths (default 40000). When it is
	// exceeded the exploration stops, Exhausted is set and the program-wide
	// BudgetExhausted records where: the property check then reports the
	// obligation as undecided instead of running out of memory.
	MaxPaths  int
	Steps     int // blocks entered so far (bounded by 5×MaxPaths)
	Exhausted bool
	// SyncGo, when set, names go statements that are explored as if they were calls: the goroutine's
	// completion is awaited by the starter on every path (established by the caller of the explorer)
	SyncGo func(g *ssa.Go) bool
	// ResolveCallee, when set, may name the function a dynamic call goes to on this path
	// (a rule that seeded the key of a constant registry knows which entry is called).
	ResolveCallee func(c *ssa.CallCommon, st *State) *ssa.Function
}

// Outcome is the summary of one feasible path.
type Outcome struct {
	Effects   []string
	End       string // "return", "stop", "panic", "exit", "bound"
	Ret       []AVal
	RetVals   []ssa.Value // the SSA values returned (with RetVal's defer-spill resolution)
	StopBlock *ssa.BasicBlock
	From      *ssa.BasicBlock
	PhiIn     map[*ssa.Phi]string // incoming value description for φs of the stop block
	Unknown   []string            // conditions the path forked on
	st        *State
}

// Key is a canonical description of the outcome.
func (o Outcome) Key() string {
	var rets []string
	for _, r := range o.Ret {
		rets = append(rets, r.String())
	}
	var phis []string
	for p, v := range o.PhiIn {
		name := p.Comment
		if name == "" {
			name = p.Name()
		}
		phis = append(phis, name+":="+v)
	}
	sort.Strings(phis)
	end := o.End
	if o.End == "stop" && o.StopBlock != nil {
		end = fmt.Sprintf("stop@%d", o.StopBlock.Index)
	}
	// which values are returned (by identity, through inlined callees) distinguishes paths too
	var rvs []string
	for _, rv := range o.RetVals {
		r := o.Root(rv)
		if in, ok := r.(ssa.Instruction); ok && in.Parent() != nil {
			rvs = append(rvs, fmt.Sprintf("%s.%s@%d", in.Parent().Name(), r.Name(), in.Pos()))
		} else if r != nil {
			rvs = append(rvs, r.Name())
		}
	}
	return fmt.Sprintf("[%s] -> %s ret(%s) phi(%s) vals(%s)", strings.Join(o.Effects, "; "), end, strings.Join(rets, ","), strings.Join(phis, ","), strings.Join(rvs, ","))
}

// Eval computes the abstract value of v on the current path.
func (s *State) Eval(v ssa.Value) AVal {
	if a, ok := s.env[v]; ok {
		return a
	}
	switch x := v.(type) {
	case *ssa.Const:
		if x.Value == nil {
			if isNillable(x) {
				return AVal{K: ANil}
			}
			// the zero value of a struct type: every field is its zero value
			return zeroAVal(x.Type())
		}
		return AVal{K: AConst, C: x.Value}
	case *ssa.Function, *ssa.MakeClosure, *ssa.Alloc, *ssa.MakeMap, *ssa.MakeSlice, *ssa.MakeChan, *ssa.MakeInterface:
		if mi, ok := x.(*ssa.MakeInterface); ok {
			inner := s.Eval(mi.X)
			if inner.K == AConst {
				return inner
			}
		}
		return AVal{K: ANonNil}
	}
	if s.ex.Atom != nil {
		if a, ok := s.ex.Atom(v); ok {
			s.env[v] = a
			return a
		}
	}
	if s.ex.AtomSt != nil {
		if a, ok := s.ex.AtomSt(v, s); ok {
			return a
		}
	}
	switch x := v.(type) {
	case *ssa.Call:
		// library summary: these constructors never return nil
		switch ShortCallee(&x.Call) {
		case "fmt.Errorf", "errors.New":
			return AVal{K: ANonNil}
		}
		// a module helper that only ever builds an error (return fmt.Errorf(…) / errors.New(…))
		if callee := x.Call.StaticCallee(); callee != nil && alwaysNewError(callee, 2) {
			return AVal{K: ANonNil}
		}
	case *ssa.ChangeType:
		return s.Eval(x.X)
	case *ssa.ChangeInterface:
		return s.Eval(x.X)
	case *ssa.Convert:
		return s.Eval(x.X)
	case *ssa.UnOp:
		switch x.Op {
		case token.NOT:
			if b, ok := s.Eval(x.X).IsBool(); ok {
				return ABool(!b)
			}
		case token.MUL:
			cell := x.X
			// an error sentinel of the module: a package variable assigned once, in the package initialiser, a
			// freshly built error
			if g, ok := cell.(*ssa.Global); ok && sentinelError(g) {
				return AVal{K: ANonNil}
			}
			// the whole value of a struct local: what is known about its fields
			if a, ok := cell.(*ssa.Alloc); ok {
				if stt, ok := Deref(a.Type()).Underlying().(*types.Struct); ok {
					out := AVal{K: AStruct, S: map[int]AVal{}}
					base := Prov(a)
					for i := 0; i < stt.NumFields(); i++ {
						if fv, ok := s.fields[base+"."+stt.Field(i).Name()]; ok && fv.K != AUnknown {
							out.S[i] = fv
						}
					}
					if len(out.S) > 0 {
						return out
					}
					if c, ok := s.cells[cell]; ok && c.K == AStruct {
						return c
					}
					return AVal{}
				}
			}
			if c, ok := s.cells[cell]; ok {
				return c
			}
			if fv, ok := cell.(*ssa.FreeVar); ok {
				if b := freeVarBinding(fv); b != nil {
					if c, ok := s.cells[b]; ok {
						return c
					}
				}
			}
			if _, ok := cell.(*ssa.FieldAddr); ok {
				if c, ok := s.fields[AccessPath(cell).String()]; ok {
					return c
				}
			}
			if ia, ok := cell.(*ssa.IndexAddr); ok {
				if arr, k, ok := s.localElem(ia); ok {
					if c, ok := s.elems[arr][k]; ok {
						return c
					}
				}
			}
		}
	case *ssa.BinOp:
		return evalBin(x.Op, s.Eval(x.X), s.Eval(x.Y))
	case *ssa.Lookup:
		// a lookup in a constant table of the module (a package-level map literal nothing writes) with a key
		// known on this path
		if !x.CommaOk {
			if v, _, ok := s.constLookup(x); ok {
				return v
			}
		}
	case *ssa.Extract:
		if lk, ok := x.Tuple.(*ssa.Lookup); ok && lk.CommaOk {
			if v, found, ok := s.constLookup(lk); ok {
				if x.Index == 0 {
					return v
				}
				return ABool(found)
			}
		}
	case *ssa.Index:
		// an element of (a copy of) a local array whose elements were written at known indices
		if arr, k, ok := s.localIndex(x); ok {
			if c, ok := s.elems[arr][k]; ok {
				return c
			}
		}
	case *ssa.Field:
		if sv := s.Eval(x.X); sv.K == AStruct {
			if fv, ok := sv.S[x.Field]; ok {
				return fv
			}
		}
	}
	return AVal{}
}

func isNillable(c *ssa.Const) bool {
	switch c.Type().Underlying().(type) {
	case *types.Struct, *types.Array:
		return false // a zero aggregate, not nil
	}
	return true
}

func evalBin(op token.Token, a, b AVal) AVal {
	if a.K == AConst && b.K == AConst {
		switch op {
		case token.EQL, token.NEQ, token.LSS, token.LEQ, token.GTR, token.GEQ:
			if a.C.Kind() == b.C.Kind() || (isNum(a.C) && isNum(b.C)) {
				if a.C.Kind() == constant.Bool {
					if op == token.EQL {
						return ABool(constant.BoolVal(a.C) == constant.BoolVal(b.C))
					}
					if op == token.NEQ {
						return ABool(constant.BoolVal(a.C) != constant.BoolVal(b.C))
					}
					return AVal{}
				}
				return ABool(constant.Compare(a.C, op, b.C))
			}
		case token.ADD, token.SUB, token.MUL, token.AND, token.OR:
			if isNum(a.C) && isNum(b.C) || (op == token.ADD && a.C.Kind() == constant.String && b.C.Kind() == constant.String) {
				return AVal{K: AConst, C: constant.BinaryOp(a.C, op, b.C)}
			}
		}
		return AVal{}
	}
	if op == token.EQL || op == token.NEQ {
		nilness := func(x AVal) int {
			switch x.K {
			case ANil:
				return 0
			case ANonNil:
				return 1
			}
			return -1
		}
		na, nb := nilness(a), nilness(b)
		if na >= 0 && nb >= 0 && (na == 0 || nb == 0) {
			return ABool((na == nb) == (op == token.EQL))
		}
	}
	return AVal{}
}

func isNum(c constant.Value) bool { return c.Kind() == constant.Int || c.Kind() == constant.Float }

// Run explores fn from (start, idx). pred is the block the path comes from
// (used to select φ edges of start when idx==0; may be nil).
func (e *Explorer) Run(fn *ssa.Function, start *ssa.BasicBlock, pred *ssa.BasicBlock, seed map[ssa.Value]AVal) []Outcome {
	if os.Getenv("TV_PATHS") != "" {
		defer func() {
			fmt.Fprintf(os.Stderr, "explore %s: %d paths (depth %d visits %d)\n", Short(fn), e.Paths, e.MaxDepth, e.MaxVisits)
			if e.Paths > 20000 {
				buf := make([]byte, 4096)
				n := runtime.Stack(buf, false)
				fmt.Fprintf(os.Stderr, "%s\n", buf[:n])
			}
		}()
	}
	if e.MaxVisits == 0 {
		e.MaxVisits = 2
	}
	if e.MaxDepth == 0 {
		e.MaxDepth = 3
	}
	st := e.NewState(seed)
	st.defers = [][]*ssa.Defer{nil}
	var outs []Outcome
	e.block(fn, start, pred, st, true, func(o Outcome) { outs = append(outs, o) })
	// dedup
	seen := map[string]bool{}
	var uniq []Outcome
	for _, o := range outs {
		k := o.Key()
		if !seen[k] {
			seen[k] = true
			uniq = append(uniq, o)
		}
	}
	sort.Slice(uniq, func(i, j int) bool { return uniq[i].Key() < uniq[j].Key() })
	return uniq
}

func (e *Explorer) block(fn *ssa.Function, b, pred *ssa.BasicBlock, st *State, first bool, emit func(Outcome)) {
	if !first && e.Stop[b] && st.depth == 0 && (e.StopPred[b] == nil || e.StopPred[b] == pred) {
		o := Outcome{Effects: st.effects, End: "stop", StopBlock: b, From: pred, Unknown: st.unknown, PhiIn: map[*ssa.Phi]string{}, st: st}
		if pred != nil {
			for _, in := range b.Instrs {
				phi, ok := in.(*ssa.Phi)
				if !ok {
					break
				}
				for i, p := range b.Preds {
					if p == pred {
						inc := phi.Edges[i]
						// a φ of another block stands for the value it took on this path
						for k := 0; k < 8; k++ {
							ip, isPhi := inc.(*ssa.Phi)
							if !isPhi || ip.Block() == b {
								break
							}
							src, ok := st.phiSrc[ip]
							if !ok {
								break
							}
							inc = src
						}
						if inc == phi {
							o.PhiIn[phi] = "keep"
						} else if a := st.Eval(inc); a.K != AUnknown {
							o.PhiIn[phi] = a.String()
						} else if ip, ok := inc.(*ssa.Phi); ok && ip.Block() == b {
							o.PhiIn[phi] = "keep"
						} else {
							o.PhiIn[phi] = "?" + Prov(inc)
						}
					}
				}
			}
		}
		e.Paths++
		emit(o)
		return
	}
	if e.MaxPaths == 0 {
		e.MaxPaths = 40000
	}
	e.Steps++
	if e.Paths > e.MaxPaths || e.Steps > 5*e.MaxPaths {
		if !e.Exhausted {
			e.Exhausted = true
			if e.P != nil {
				e.P.BudgetExhausted = append(e.P.BudgetExhausted, Short(Outer(fn)))
			}
		}
		return
	}
	st.visits[b]++
	if st.visits[b] > e.MaxVisits {
		e.Paths++
		emit(Outcome{Effects: st.effects, End: "bound", StopBlock: b, Unknown: st.unknown, st: st})
		return
	}
	if st.visits[b] > 1 {
		// a block entered again defines its values anew: what an earlier iteration
		// assumed about them (a forked loop condition) does not carry over
		for _, in := range b.Instrs {
			if v, ok := in.(ssa.Value); ok {
				if _, isPhi := in.(*ssa.Phi); !isPhi {
					delete(st.env, v)
				}
			}
		}
	}
	// φ nodes take the value of the incoming edge
	if pred != nil {
		vals := map[*ssa.Phi]AVal{}
		for _, in := range b.Instrs {
			phi, ok := in.(*ssa.Phi)
			if !ok {
				break
			}
			for i, p := range b.Preds {
				if p == pred {
					vals[phi] = st.Eval(phi.Edges[i])
					if st.phiSrc == nil {
						st.phiSrc = map[*ssa.Phi]ssa.Value{}
					}
					st.phiSrc[phi] = phi.Edges[i]
				}
			}
		}
		for phi, v := range vals {
			if v.K == AUnknown {
				delete(st.env, phi)
			} else {
				st.env[phi] = v
			}
		}
	}
	e.instrs(fn, b, 0, st, emit)
}

func (e *Explorer) instrs(fn *ssa.Function, b *ssa.BasicBlock, from int, st *State, emit func(Outcome)) {
	for i := from; i < len(b.Instrs); i++ {
		in := b.Instrs[i]
		switch x := in.(type) {
		case *ssa.Phi, *ssa.DebugRef:
			continue
		case *ssa.Store:
			val := st.Eval(x.Val)
			switch a := x.Addr.(type) {
			case *ssa.Alloc:
				st.cells[a] = val
				if st.cellVal == nil {
					st.cellVal = map[ssa.Value]ssa.Value{}
				}
				st.cellVal[a] = x.Val
				// a whole struct value put into a local: its fields are what the value says
				if stt, ok := Deref(a.Type()).Underlying().(*types.Struct); ok {
					base := Prov(a)
					for i := 0; i < stt.NumFields(); i++ {
						key := base + "." + stt.Field(i).Name()
						if fv, ok := val.S[i]; ok && val.K == AStruct && fv.K != AUnknown {
							st.fields[key] = fv
						} else {
							delete(st.fields, key)
						}
					}
				}
			case *ssa.FreeVar:
				if st.cellVal == nil {
					st.cellVal = map[ssa.Value]ssa.Value{}
				}
				if bnd := freeVarBinding(a); bnd != nil {
					st.cells[bnd] = val
					st.cellVal[bnd] = x.Val
				} else {
					st.cells[a] = val
					st.cellVal[a] = x.Val
				}
			case *ssa.FieldAddr:
				st.fields[AccessPath(a).String()] = val
			case *ssa.IndexAddr:
				if arr, k, ok := st.localElem(a); ok {
					if st.elems == nil {
						st.elems = map[ssa.Value]map[int64]AVal{}
						st.elemVal = map[ssa.Value]map[int64]ssa.Value{}
					}
					if st.elems[arr] == nil {
						st.elems[arr] = map[int64]AVal{}
						st.elemVal[arr] = map[int64]ssa.Value{}
					}
					st.elems[arr][k] = val
					st.elemVal[arr][k] = x.Val
				}
			}
			e.effect(in, st)
		case *ssa.Defer:
			st.defers[len(st.defers)-1] = append(st.defers[len(st.defers)-1], x)
		case *ssa.RunDefers:
			frame := st.defers[len(st.defers)-1]
			st.defers[len(st.defers)-1] = nil
			// run in reverse order; inlinable deferred closures are explored in place
			e.runDefers(fn, frame, len(frame)-1, st, func(st2 *State) {
				e.instrs(fn, b, i+1, st2, emit)
			}, emit)
			return
		case *ssa.Call:
			name := ShortCallee(&x.Call)
			if e.Atom != nil {
				if a, ok := e.Atom(x); ok {
					// a seeded call is not explored
					st.env[x] = a
					e.effect(in, st)
					continue
				}
			}
			if e.AtomSt != nil {
				if _, ok := e.AtomSt(x, st); ok {
					e.effect(in, st)
					continue
				}
			}
			if e.Effect != nil {
				if l := e.Effect(in, st); l != "" {
					// a call that is itself a tracked effect is opaque
					st.effects = append(st.effects, l)
					if !pureCall(name) {
						st.fields = map[string]AVal{}
					}
					continue
				}
			}
			if e.NoReturn != nil && e.NoReturn(name) {
				e.effect(in, st)
				e.Paths++
				emit(Outcome{Effects: st.effects, End: "exit", Unknown: st.unknown, st: st})
				return
			}
			if callee := e.inlinable(&x.Call, st); callee != nil {
				e.inlineV(callee, x, &x.Call, st, func(st2 *State, ret []AVal, rvals []ssa.Value) {
					bindResult(x, ret, st2)
					bindResultValues(x, rvals, st2)
					e.instrs(fn, b, i+1, st2, emit)
				}, emit)
				return
			}
			e.effect(in, st)
			// an opaque call may write any heap field
			if !pureCall(name) {
				st.fields = map[string]AVal{}
			}
		case *ssa.Go:
			if e.SyncGo != nil && e.SyncGo(x) {
				if callee := e.inlinable(&x.Call, st); callee != nil {
					e.inlineV(callee, x, &x.Call, st, func(st2 *State, ret []AVal, rvals []ssa.Value) {
						e.instrs(fn, b, i+1, st2, emit)
					}, emit)
					return
				}
			}
			e.effect(in, st)
		case *ssa.If:
			c := st.Eval(x.Cond)
			if bv, ok := c.IsBool(); ok {
				succ := b.Succs[1]
				if bv {
					succ = b.Succs[0]
				}
				e.block(fn, succ, b, st, false, emit)
				return
			}
			for k, succ := range b.Succs {
				st2 := st.clone()
				st2.env[x.Cond] = ABool(k == 0)
				refine(x.Cond, k == 0, st2)
				st2.unknown = append(st2.unknown, fmt.Sprintf("%s=%v", Prov(x.Cond), k == 0))
				e.block(fn, succ, b, st2, false, emit)
			}
			return
		case *ssa.Jump:
			e.block(fn, b.Succs[0], b, st, false, emit)
			return
		case *ssa.Return:
			var ret []AVal
			var rvals []ssa.Value
			for i, r := range x.Results {
				ret = append(ret, st.Eval(r))
				rvals = append(rvals, RetVal(x, i))
			}
			e.Paths++
			emit(Outcome{Effects: st.effects, End: "return", Ret: ret, RetVals: rvals, Unknown: st.unknown, st: st})
			return
		case *ssa.Panic:
			e.effect(in, st)
			e.Paths++
			emit(Outcome{Effects: st.effects, End: "panic", Unknown: st.unknown, st: st})
			return
		default:
			e.effect(in, st)
		}
	}
}

// refine records what a forked condition implies about its operands.
func refine(cond ssa.Value, outcome bool, st *State) {
	switch c := cond.(type) {
	case *ssa.UnOp:
		if c.Op == token.NOT {
			st.env[c.X] = ABool(!outcome)
			refine(c.X, !outcome, st)
		}
	case *ssa.BinOp:
		if x, eq, ok := NilTest(c); ok {
			isNil := eq == outcome
			if isNil {
				st.env[x] = AVal{K: ANil}
			} else {
				st.env[x] = AVal{K: ANonNil}
			}
		}
	}
}

func pureCall(name string) bool {
	switch {
	case strings.HasPrefix(name, "builtin."), strings.HasPrefix(name, "fmt."), strings.HasPrefix(name, "strings."),
		strings.HasPrefix(name, "github.com/sirupsen/logrus."), strings.HasPrefix(name, "time."),
		strings.HasPrefix(name, "errors."), strings.HasPrefix(name, "sync/atomic."), strings.HasPrefix(name, "(*sync."):
		return true
	}
	return false
}

func bindResult(call *ssa.Call, ret []AVal, st *State) {
	if len(ret) == 1 {
		if ret[0].K != AUnknown {
			st.env[call] = ret[0]
		}
		return
	}
	if refs := call.Referrers(); refs != nil {
		for _, r := range *refs {
			if ex, ok := r.(*ssa.Extract); ok && ex.Index < len(ret) && ret[ex.Index].K != AUnknown {
				st.env[ex] = ret[ex.Index]
			}
		}
	}
}

func (e *Explorer) effect(in ssa.Instruction, st *State) {
	if e.Effect == nil {
		return
	}
	if l := e.Effect(in, st); l != "" {
		st.effects = append(st.effects, l)
	}
}

func (e *Explorer) inlinable(c *ssa.CallCommon, st *State) *ssa.Function {
	if e.Inline == nil || st.depth >= e.MaxDepth {
		return nil
	}
	var callee *ssa.Function
	if e.ResolveCallee != nil {
		callee = e.ResolveCallee(c, st)
	}
	if callee == nil && c.IsInvoke() {
		// an interface call whose receiver is, on this path, a value of a known concrete type
		var dyn types.Type
		root := st.Root(c.Value)
		if mi, ok := root.(*ssa.MakeInterface); ok {
			dyn = mi.X.Type()
		} else if !types.IsInterface(root.Type()) {
			dyn = root.Type() // (value resolution looks through the conversion to the interface)
		}
		if dyn != nil {
			if sel := e.P.SSA.MethodSets.MethodSet(dyn).Lookup(c.Method.Pkg(), c.Method.Name()); sel != nil {
				if m := e.P.SSA.MethodValue(sel); m != nil {
					callee = e.P.Unwrap(m)
				}
			}
		}
	}
	if callee == nil && !c.IsInvoke() {
		// a call of a function value that is, on this path, a known closure, function or bound method
		// (a helper's func parameter bound by the caller)
		if _, static := c.Value.(*ssa.Function); !static {
			switch r := st.Root(c.Value).(type) {
			case *ssa.MakeClosure:
				if f, ok := r.Fn.(*ssa.Function); ok {
					callee = e.P.Unwrap(f)
				}
			case *ssa.Function:
				callee = e.P.Unwrap(r)
			}
		}
	}
	if callee == nil {
		cs := e.P.Callees(c)
		if len(cs) != 1 {
			return nil
		}
		callee = cs[0]
	}
	if callee == nil || callee.Blocks == nil || !InModule(callee) || !e.Inline(callee) {
		return nil
	}
	// a function that is already being explored on this path (recursion) stays opaque
	for _, site := range st.stack {
		if site.Parent() == callee {
			return nil
		}
		if ci, ok := site.(ssa.CallInstruction); ok {
			for _, f := range e.P.Callees(ci.Common()) {
				if f == callee {
					return nil
				}
			}
		}
	}
	return callee
}

func (e *Explorer) inline(callee *ssa.Function, site ssa.Instruction, c *ssa.CallCommon, st *State, cont func(*State, []AVal), emit func(Outcome)) {
	e.inlineV(callee, site, c, st, func(s2 *State, ret []AVal, _ []ssa.Value) { cont(s2, ret) }, emit)
}

func (e *Explorer) inlineV(callee *ssa.Function, site ssa.Instruction, c *ssa.CallCommon, st *State, cont func(*State, []AVal, []ssa.Value), emit func(Outcome)) {
	st2 := st.clone()
	st2.depth++
	// a new activation: what an earlier activation of the same function left behind (block visit counts,
	// values of its instructions, contents of its locals) does not carry over
	for _, b := range callee.Blocks {
		delete(st2.visits, b)
		for _, in := range b.Instrs {
			if v, ok := in.(ssa.Value); ok {
				delete(st2.env, v)
				if a, ok := in.(*ssa.Alloc); ok {
					delete(st2.cells, a)
					if stt, ok := Deref(a.Type()).Underlying().(*types.Struct); ok {
						base := Prov(a)
						for i := 0; i < stt.NumFields(); i++ {
							delete(st2.fields, base+"."+stt.Field(i).Name())
						}
					}
				}
			}
		}
	}
	args := c.Args
	params := callee.Params
	if c.IsInvoke() {
		// receiver first
		if len(params) > 0 {
			st2.env[params[0]] = st.Eval(c.Value)
			params = params[1:]
		}
	}
	if c.IsInvoke() && len(callee.Params) > 0 {
		st2.bind[callee.Params[0]] = c.Value
	}
	for i, p := range params {
		if i < len(args) {
			st2.bind[p] = args[i]
			a := st.Eval(args[i])
			if a.K != AUnknown {
				st2.env[p] = a
			} else {
				delete(st2.env, p)
			}
		}
	}
	// a closure's free variables are bound where the closure was made
	closures := Sources(c.Value)
	if !c.IsInvoke() {
		if mc, ok := st.Root(c.Value).(*ssa.MakeClosure); ok {
			closures = append(closures, mc)
		}
	}
	for _, src := range closures {
		mc, ok := src.(*ssa.MakeClosure)
		if !ok {
			continue
		}
		if mc.Fn == callee {
			for i, fv := range callee.FreeVars {
				if i < len(mc.Bindings) {
					st2.bind[fv] = mc.Bindings[i]
				}
			}
		} else if f, isF := mc.Fn.(*ssa.Function); isF && f.Synthetic != "" && e.P.Unwrap(f) == callee && len(mc.Bindings) == 1 && len(callee.Params) == len(args)+1 {
			// a bound method value x.m: the receiver is the closure's one binding, the arguments follow
			recv := callee.Params[0]
			st2.bind[recv] = mc.Bindings[0]
			if a := st.Eval(mc.Bindings[0]); a.K != AUnknown {
				st2.env[recv] = a
			}
			for i, p := range callee.Params[1:] {
				st2.bind[p] = args[i]
				if a := st.Eval(args[i]); a.K != AUnknown {
					st2.env[p] = a
				} else {
					delete(st2.env, p)
				}
			}
		}
	}
	st2.stack = append(st2.stack, site)
	st2.defers = append(st2.defers, nil)
	// fresh visit counts for the callee's blocks
	for _, b := range callee.Blocks {
		delete(st2.visits, b)
	}
	e.block(callee, callee.Blocks[0], nil, st2, true, func(o Outcome) {
		switch o.End {
		case "return":
			st3 := o.st.clone()
			st3.depth--
			st3.defers = st3.defers[:len(st3.defers)-1]
			if len(st3.stack) > 0 {
				st3.stack = st3.stack[:len(st3.stack)-1]
			}
			cont(st3, o.Ret, o.RetVals)
		default:
			emit(o)
		}
	})
}

func (e *Explorer) runDefers(fn *ssa.Function, frame []*ssa.Defer, k int, st *State, cont func(*State), emit func(Outcome)) {
	if k < 0 {
		cont(st)
		return
	}
	d := frame[k]
	if callee := e.inlinable(&d.Call, st); callee != nil {
		e.inline(callee, d, &d.Call, st, func(st2 *State, _ []AVal) {
			e.runDefers(fn, frame, k-1, st2, cont, emit)
		}, emit)
		return
	}
	e.effect(d, st)
	e.runDefers(fn, frame, k-1, st, cont, emit)
}

// RowsTable runs the explorer once per row and renders the outcomes.
type Row struct {
	Name     string
	Outcomes []Outcome
}

// OutcomeKeys lists the canonical outcome strings of a row.
func (r Row) Keys() []string {
	var ks []string
	for _, o := range r.Outcomes {
		ks = append(ks, o.Key())
	}
	return ks
}

// NewState creates a detached evaluation state (for evaluating single
// conditions under assumptions).
func (e *Explorer) NewState(seed map[ssa.Value]AVal) *State {
	st := &State{ex: e, env: map[ssa.Value]AVal{}, cells: map[ssa.Value]AVal{}, fields: map[string]AVal{}, visits: map[*ssa.BasicBlock]int{}, bind: map[ssa.Value]ssa.Value{}}
	for k, v := range seed {
		st.env[k] = v
	}
	return st
}

// Root maps a value to the value it denotes in the outermost explored
// function: parameters and free variables of inlined callees are replaced by
// what they were bound to at the call.
// cellLoad: v is a load of a local cell with a value recorded on this path.
// localElem: ia addresses element k (known on this path) of an array that is a local of the function.
func (s *State) localElem(ia *ssa.IndexAddr) (ssa.Value, int64, bool) {
	al, ok := ia.X.(*ssa.Alloc)
	if !ok {
		return nil, 0, false
	}
	if _, isArr := Deref(al.Type()).Underlying().(*types.Array); !isArr {
		return nil, 0, false
	}
	k, ok := ConstIntOf(s.Eval(ia.Index))
	if !ok {
		return nil, 0, false
	}
	return al, k, true
}

// localIndex: x reads element k (known on this path) of a value copy of a local array.
func (s *State) localIndex(x *ssa.Index) (ssa.Value, int64, bool) {
	u, ok := x.X.(*ssa.UnOp)
	if !ok || u.Op != token.MUL {
		return nil, 0, false
	}
	al, ok := u.X.(*ssa.Alloc)
	if !ok {
		return nil, 0, false
	}
	k, ok := ConstIntOf(s.Eval(x.Index))
	if !ok {
		return nil, 0, false
	}
	return al, k, true
}

func (s *State) cellLoad(v ssa.Value) (ssa.Value, bool) {
	if ix, isIx := v.(*ssa.Index); isIx && len(s.elemVal) > 0 {
		if arr, k, ok := s.localIndex(ix); ok {
			if ev, ok := s.elemVal[arr][k]; ok && ev != nil {
				return ev, true
			}
		}
		return nil, false
	}
	u, ok := v.(*ssa.UnOp)
	if !ok || u.Op != token.MUL {
		return nil, false
	}
	if ia, isIA := u.X.(*ssa.IndexAddr); isIA && len(s.elemVal) > 0 {
		if arr, k, ok := s.localElem(ia); ok {
			if ev, ok := s.elemVal[arr][k]; ok && ev != nil {
				return ev, true
			}
		}
	}
	if len(s.cellVal) == 0 {
		return nil, false
	}
	cell := u.X
	if fv, isFV := cell.(*ssa.FreeVar); isFV {
		if b := freeVarBinding(fv); b != nil {
			cell = b
		}
	}
	cv, ok := s.cellVal[cell]
	return cv, ok && cv != nil
}

func (s *State) Root(v ssa.Value) ssa.Value {
	for i := 0; i < 16; i++ {
		if u, ok := v.(*ssa.UnOp); ok && u.Op == token.MUL {
			if _, isIA := u.X.(*ssa.IndexAddr); isIA {
				if cv, ok := s.cellLoad(v); ok {
					v = cv
					continue
				}
			}
		}
		if _, isIx := v.(*ssa.Index); isIx {
			if cv, ok := s.cellLoad(v); ok {
				v = cv
				continue
			}
		}
		all := ResolveAll(v)
		if len(all) != 1 {
			// a cell written in several places: what this path stored last
			if cv, ok := s.cellLoad(v); ok {
				v = cv
				continue
			}
			return v
		}
		r := all[0]
		b, ok := s.bind[r]
		if !ok {
			return r
		}
		v = b
	}
	return v
}

// RootChain returns v and every value it is successively mapped to on the way
// to Root(v): a helper's parameter, the caller's argument, what an inlined
// call's result denoted inside the callee, … (a property that holds of one
// of the intermediate values need not be visible at the end of the chain).
func (s *State) RootChain(v ssa.Value) []ssa.Value {
	out := []ssa.Value{v}
	for i := 0; i < 16; i++ {
		if u, ok := v.(*ssa.UnOp); ok && u.Op == token.MUL {
			if _, isIA := u.X.(*ssa.IndexAddr); isIA {
				if cv, ok := s.cellLoad(v); ok {
					out = append(out, cv)
					v = cv
					continue
				}
			}
		}
		if _, isIx := v.(*ssa.Index); isIx {
			if cv, ok := s.cellLoad(v); ok {
				out = append(out, cv)
				v = cv
				continue
			}
		}
		all := ResolveAll(v)
		if len(all) != 1 {
			if cv, ok := s.cellLoad(v); ok {
				out = append(out, cv)
				v = cv
				continue
			}
			return out
		}
		r := all[0]
		if r != v {
			out = append(out, r)
		}
		b, ok := s.bind[r]
		if !ok {
			return out
		}
		out = append(out, b)
		v = b
	}
	return out
}

// SameRoot reports whether a and b denote the same value after mapping
// inlined parameters back to their arguments.
func (s *State) SameRoot(a, b ssa.Value) bool {
	ra, rb := s.Root(a), s.Root(b)
	return ra == rb || SameValue(ra, rb)
}

// InlinedAt returns the call sites currently being inlined (outermost first).
func (s *State) InlinedAt() []ssa.Instruction { return s.stack }

// RunFrom explores fn starting right after instruction `after`.
func (e *Explorer) RunFrom(fn *ssa.Function, after ssa.Instruction, seed map[ssa.Value]AVal) []Outcome {
	if e.MaxVisits == 0 {
		e.MaxVisits = 2
	}
	if e.MaxDepth == 0 {
		e.MaxDepth = 3
	}
	st := e.NewState(seed)
	st.defers = [][]*ssa.Defer{nil}
	// defers registered before `after` in dominating positions are active
	for _, b := range fn.Blocks {
		for _, in := range b.Instrs {
			if d, ok := in.(*ssa.Defer); ok && Dominates(d, after) {
				st.defers[0] = append(st.defers[0], d)
			}
		}
	}
	var outs []Outcome
	e.instrs(fn, after.Block(), InstrIndex(after)+1, st, func(o Outcome) { outs = append(outs, o) })
	seen := map[string]bool{}
	var uniq []Outcome
	for _, o := range outs {
		k := o.Key()
		if !seen[k] {
			seen[k] = true
			uniq = append(uniq, o)
		}
	}
	sort.Slice(uniq, func(i, j int) bool { return uniq[i].Key() < uniq[j].Key() })
	return uniq
}

// bindResultValues records, for an inlined call, which SSA values of the
// callee the call's results denote on this path (so Root can follow them).
func bindResultValues(call *ssa.Call, rvals []ssa.Value, st *State) {
	if len(rvals) == 1 {
		st.bind[call] = rvals[0]
		return
	}
	if refs := call.Referrers(); refs != nil {
		for _, r := range *refs {
			if ex, ok := r.(*ssa.Extract); ok && ex.Index < len(rvals) {
				st.bind[ex] = rvals[ex.Index]
			}
		}
	}
}

// Effects returns the effects recorded so far on this path.
func (s *State) Effects() []string { return s.effects }

// Root maps a value to what it denotes on this outcome's path (see State.Root).
func (o Outcome) Root(v ssa.Value) ssa.Value {
	if o.st == nil {
		return v
	}
	return o.st.Root(v)
}

// ConstIntOf returns the integer an abstract constant denotes.
func ConstIntOf(a AVal) (int64, bool) {
	if a.K != AConst || a.C == nil || a.C.Kind() != constant.Int {
		return 0, false
	}
	return constant.Int64Val(a.C)
}

// alwaysNewError reports whether fn is a module function with a single error
// result all of whose returns are freshly constructed errors.
func alwaysNewError(fn *ssa.Function, depth int) bool {
	if fn == nil || fn.Blocks == nil || !InModule(fn) || depth == 0 {
		return false
	}
	res := fn.Signature.Results()
	if res.Len() != 1 || !IsErrorType(res.At(0).Type()) {
		return false
	}
	rets := Returns(fn)
	if len(rets) == 0 {
		return false
	}
	for _, ret := range rets {
		srcs := ResolveAll(RetVal(ret, 0))
		if len(srcs) == 0 {
			return false
		}
		for _, src := range srcs {
			call, ok := src.(*ssa.Call)
			if !ok {
				return false
			}
			switch ShortCallee(&call.Call) {
			case "fmt.Errorf", "errors.New":
				continue
			}
			if !alwaysNewError(call.Call.StaticCallee(), depth-1) {
				return false
			}
		}
	}
	return true
}

var sentinelCache = map[*ssa.Global]bool{}
var sentinelDone bool

// sentinelError reports whether g is a package variable of the module that holds an error built by errors.New /
// fmt.Errorf in the package initialiser and is assigned nowhere else.
func sentinelError(g *ssa.Global) bool {
	if CurrentProg == nil || g.Pkg == nil {
		return false
	}
	if !sentinelDone {
		sentinelDone = true
		bad := map[*ssa.Global]bool{}
		good := map[*ssa.Global]bool{}
		visit := func(fn *ssa.Function, isInit bool) {
			EachInstr(fn, func(in ssa.Instruction) {
				st, ok := in.(*ssa.Store)
				if !ok {
					return
				}
				gg, ok := st.Addr.(*ssa.Global)
				if !ok {
					return
				}
				if !isInit {
					bad[gg] = true
					return
				}
				v := st.Val
				if mi, ok := v.(*ssa.MakeInterface); ok {
					v = mi.X
				}
				if call, ok := v.(*ssa.Call); ok {
					switch ShortCallee(&call.Call) {
					case "errors.New", "fmt.Errorf":
						good[gg] = true
						return
					}
				}
				bad[gg] = true
			})
		}
		for _, fn := range CurrentProg.Funcs {
			visit(fn, false)
		}
		seen := map[*ssa.Package]bool{}
		for _, fn := range CurrentProg.Funcs {
			if fn.Pkg == nil || seen[fn.Pkg] {
				continue
			}
			seen[fn.Pkg] = true
			if init := fn.Pkg.Func("init"); init != nil {
				visit(init, true)
			}
		}
		for gg := range good {
			if !bad[gg] {
				sentinelCache[gg] = true
			}
		}
	}
	return sentinelCache[g]
}

// zeroAVal is the abstract zero value of type t (unknown where the explorer has no representation).
func zeroAVal(t types.Type) AVal {
	switch ft := t.Underlying().(type) {
	case *types.Basic:
		switch {
		case ft.Info()&types.IsBoolean != 0:
			return ABool(false)
		case ft.Info()&types.IsInteger != 0:
			return AInt(0)
		case ft.Info()&types.IsString != 0:
			return AStr("")
		}
	case *types.Pointer, *types.Interface, *types.Map, *types.Slice, *types.Chan, *types.Signature:
		return AVal{K: ANil}
	case *types.Struct:
		out := AVal{K: AStruct, S: map[int]AVal{}}
		for i := 0; i < ft.NumFields(); i++ {
			if z := zeroAVal(ft.Field(i).Type()); z.K != AUnknown {
				out.S[i] = z
			}
		}
		return out
	}
	return AVal{}
}

type constTable struct {
	entries map[string]AVal // key (exact constant string) → value
	ok      bool
}

var constTables = map[*ssa.Global]*constTable{}

// constTableOf reads a package-level map of the module that is initialised by a literal with constant keys and
// constant (or constant-struct) values in the package initialiser and that nothing else in the module writes.
func constTableOf(g *ssa.Global) *constTable {
	if t, ok := constTables[g]; ok {
		return t
	}
	t := &constTable{entries: map[string]AVal{}}
	constTables[g] = t
	if CurrentProg == nil || g.Pkg == nil {
		return t
	}
	initFn := g.Pkg.Func("init")
	if initFn == nil {
		return t
	}
	good := true
	n := 0
	EachInstr(initFn, func(in ssa.Instruction) {
		mu, ok := in.(*ssa.MapUpdate)
		if !ok {
			return
		}
		mm, ok := mu.Map.(*ssa.MakeMap)
		if !ok || mm.Referrers() == nil {
			return
		}
		stored := false
		for _, r := range *mm.Referrers() {
			if st, ok := r.(*ssa.Store); ok && st.Addr == ssa.Value(g) {
				stored = true
			}
		}
		if !stored {
			return
		}
		n++
		kc, ok := mu.Key.(*ssa.Const)
		if !ok || kc.Value == nil {
			good = false
			return
		}
		var val AVal
		switch v := mu.Value.(type) {
		case *ssa.Const:
			if v.Value == nil {
				val = zeroAVal(v.Type())
			} else {
				val = AVal{K: AConst, C: v.Value}
			}
		case *ssa.UnOp:
			// a struct literal: a local whose fields were stored one by one
			al, isAl := v.X.(*ssa.Alloc)
			stt, isSt := v.Type().Underlying().(*types.Struct)
			if v.Op != token.MUL || !isAl || !isSt || al.Referrers() == nil {
				good = false
				return
			}
			val = zeroAVal(v.Type())
			for _, r := range *al.Referrers() {
				fa, ok := r.(*ssa.FieldAddr)
				if !ok || fa.Referrers() == nil {
					continue
				}
				for _, rr := range *fa.Referrers() {
					st, ok := rr.(*ssa.Store)
					if !ok || st.Addr != ssa.Value(fa) {
						continue
					}
					c, isC := st.Val.(*ssa.Const)
					if !isC || c.Value == nil {
						delete(val.S, fa.Field)
						continue
					}
					val.S[fa.Field] = AVal{K: AConst, C: c.Value}
				}
			}
			_ = stt
		default:
			good = false
			return
		}
		t.entries[kc.Value.ExactString()] = val
	})
	// nothing else writes it
	for _, fn := range CurrentProg.Funcs {
		EachInstr(fn, func(in ssa.Instruction) {
			switch y := in.(type) {
			case *ssa.Store:
				if y.Addr == ssa.Value(g) {
					good = false
				}
			case *ssa.MapUpdate:
				for _, src := range Sources(y.Map) {
					if u, ok := src.(*ssa.UnOp); ok && u.X == ssa.Value(g) {
						good = false
					}
				}
			}
		})
	}
	t.ok = good && n > 0
	return t
}

// constLookup evaluates a lookup in a constant table with a key known on the path.
func (s *State) constLookup(lk *ssa.Lookup) (val AVal, found bool, ok bool) {
	var g *ssa.Global
	for _, src := range Sources(lk.X) {
		if u, isU := src.(*ssa.UnOp); isU && u.Op == token.MUL {
			if gg, isG := u.X.(*ssa.Global); isG {
				g = gg
			}
		}
	}
	if g == nil {
		return AVal{}, false, false
	}
	t := constTableOf(g)
	if !t.ok {
		return AVal{}, false, false
	}
	k := s.Eval(lk.Index)
	if k.K != AConst || k.C == nil {
		return AVal{}, false, false
	}
	mt, isMap := lk.X.Type().Underlying().(*types.Map)
	if !isMap {
		return AVal{}, false, false
	}
	if v, hit := t.entries[k.C.ExactString()]; hit {
		return v, true, true
	}
	return zeroAVal(mt.Elem()), false, true
}
