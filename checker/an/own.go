package an

import (
	"go/token"
	"go/types"

	"golang.org/x/tools/go/ssa"
)

// E4 helpers: fresh vs shared bases, store→load forwarding.

// FreshBase reports whether the object v points to was allocated by the
// function itself (a local, new(T), &T{…}), possibly initialised by a value
// copy of a shared object. copied tells whether such a whole-object copy
// initialises it.
func FreshBase(v ssa.Value) (fresh bool, copied bool) {
	all := ResolveAll(v)
	if len(all) == 0 {
		return false, false
	}
	fresh = true
	for _, r := range all {
		a, ok := r.(*ssa.Alloc)
		if !ok {
			return false, false
		}
		if refs := a.Referrers(); refs != nil {
			for _, ref := range *refs {
				if st, ok := ref.(*ssa.Store); ok && st.Addr == ssa.Value(a) {
					copied = true
				}
			}
		}
	}
	return fresh, copied
}

// StoresToField lists the stores in fn to field `field` of the object `base`
// points to (identity of base by resolved value).
func StoresToField(fn *ssa.Function, base ssa.Value, field string) []*ssa.Store {
	var out []*ssa.Store
	for _, f := range WithAnon(fn) {
		EachInstr(f, func(in ssa.Instruction) {
			st, ok := in.(*ssa.Store)
			if !ok {
				return
			}
			fa, ok := st.Addr.(*ssa.FieldAddr)
			if !ok || fieldName(fa.X.Type(), fa.Field) != field {
				return
			}
			if SameValue(fa.X, base) || Resolve(fa.X) == Resolve(base) {
				out = append(out, st)
			}
		})
	}
	return out
}

// ForwardLoad resolves a load of x.f to the values stored into x.f in the
// same function by stores that dominate the load (closest first); ok=false
// when there is none.
func ForwardLoad(load ssa.Value) ([]ssa.Value, bool) {
	u, isLoad := load.(*ssa.UnOp)
	if !isLoad || u.Op != token.MUL {
		return nil, false
	}
	fa, isFA := u.X.(*ssa.FieldAddr)
	if !isFA {
		return nil, false
	}
	fn := u.Parent()
	var cands []*ssa.Store
	for _, st := range StoresToField(fn, fa.X, fieldName(fa.X.Type(), fa.Field)) {
		if st.Parent() == fn && Dominates(st, u) {
			cands = append(cands, st)
		}
	}
	if len(cands) == 0 {
		return nil, false
	}
	// the closest dominating store: the one every other candidate dominates
	best := cands[0]
	for _, c := range cands[1:] {
		if Dominates(best, c) {
			best = c
		}
	}
	return []ssa.Value{best.Val}, true
}

// StoresToFieldDeep is StoresToField that also follows the object into the
// module functions it is handed to: when fn passes base (a pointer) to a
// callee, the stores the callee makes through the matching parameter count.
func (p *Prog) StoresToFieldDeep(fn *ssa.Function, base ssa.Value, field string, depth int) []*ssa.Store {
	out := StoresToField(fn, base, field)
	if depth == 0 {
		return out
	}
	for _, f := range WithAnon(fn) {
		EachInstr(f, func(in ssa.Instruction) {
			call, ok := in.(*ssa.Call)
			if !ok {
				return
			}
			callee := call.Call.StaticCallee()
			if callee == nil || callee.Blocks == nil || !InModule(callee) {
				return
			}
			for i, a := range call.Call.Args {
				if i >= len(callee.Params) {
					break
				}
				if SameValue(a, base) || Resolve(a) == Resolve(base) {
					out = append(out, p.StoresToFieldDeep(callee, callee.Params[i], field, depth-1)...)
				}
			}
		})
	}
	return out
}

// ForwardLoadThroughCall resolves a load of x.f to what a module helper,
// called with x before the load, stored into the field: the closest call
// site dominating the load whose callee stores to f of the matching parameter
// on every path to its exit. It returns the stored values (in the callee)
// and the callee.
func (p *Prog) ForwardLoadThroughCall(load ssa.Value) ([]ssa.Value, *ssa.Function, bool) {
	u, isLoad := load.(*ssa.UnOp)
	if !isLoad || u.Op != token.MUL {
		return nil, nil, false
	}
	fa, isFA := u.X.(*ssa.FieldAddr)
	if !isFA {
		return nil, nil, false
	}
	field := fieldName(fa.X.Type(), fa.Field)
	fn := u.Parent()
	var best *ssa.Call
	var bestCallee *ssa.Function
	var bestIdx int
	EachInstr(fn, func(in ssa.Instruction) {
		call, ok := in.(*ssa.Call)
		if !ok || !Dominates(call, u) {
			return
		}
		callee := call.Call.StaticCallee()
		if callee == nil || callee.Blocks == nil || !InModule(callee) {
			return
		}
		for i, a := range call.Call.Args {
			if i >= len(callee.Params) || !(SameValue(a, fa.X) || Resolve(a) == Resolve(fa.X)) {
				continue
			}
			sts := StoresToField(callee, callee.Params[i], field)
			if len(sts) == 0 {
				continue
			}
			if best == nil || Dominates(best, call) {
				best, bestCallee, bestIdx = call, callee, i
			}
		}
	})
	if best == nil {
		return nil, nil, false
	}
	var vals []ssa.Value
	for _, st := range StoresToField(bestCallee, bestCallee.Params[bestIdx], field) {
		vals = append(vals, st.Val)
	}
	// the store happens on every way out of the helper
	for _, ret := range Returns(bestCallee) {
		dom := false
		for _, st := range StoresToField(bestCallee, bestCallee.Params[bestIdx], field) {
			if Dominates(st, ret) {
				dom = true
			}
		}
		if !dom {
			return nil, nil, false
		}
	}
	return vals, bestCallee, true
}

// ConstructorCall returns the call and the callee when v is the result of a
// call of a module function that returns, on every non-nil return, an object
// it allocated itself, together with those allocations.
func ConstructorCall(v ssa.Value) (*ssa.Call, *ssa.Function, []*ssa.Alloc) {
	srcs := ResolveAll(v)
	if len(srcs) != 1 {
		return nil, nil, nil
	}
	var call *ssa.Call
	idx := 0
	switch x := srcs[0].(type) {
	case *ssa.Call:
		call = x
	case *ssa.Extract:
		call, _ = x.Tuple.(*ssa.Call)
		idx = x.Index
	}
	if call == nil {
		return nil, nil, nil
	}
	callee := call.Call.StaticCallee()
	if callee == nil || callee.Blocks == nil || !InModule(callee) {
		return nil, nil, nil
	}
	var allocs []*ssa.Alloc
	for _, ret := range Returns(callee) {
		if idx >= len(ret.Results) {
			return nil, nil, nil
		}
		for _, r := range ResolveAll(RetVal(ret, idx)) {
			if IsNilConst(r) {
				continue
			}
			al, isAlloc := r.(*ssa.Alloc)
			if !isAlloc || al.Parent() != callee {
				return nil, nil, nil
			}
			allocs = append(allocs, al)
		}
	}
	if len(allocs) == 0 {
		return nil, nil, nil
	}
	return call, callee, allocs
}

// ForwardLoadCtor resolves a load of x.f, where x was just obtained from a
// constructor helper (ConstructorCall) and no store to x.f in the loading
// function lies between, to what the helper stored into the field of the
// object it returns. The values belong to the helper; call is the call site.
func ForwardLoadCtor(load ssa.Value) ([]ssa.Value, *ssa.Call, bool) {
	u, isLoad := load.(*ssa.UnOp)
	if !isLoad || u.Op != token.MUL {
		return nil, nil, false
	}
	fa, isFA := u.X.(*ssa.FieldAddr)
	if !isFA {
		return nil, nil, false
	}
	call, callee, allocs := ConstructorCall(fa.X)
	if call == nil {
		return nil, nil, false
	}
	field := fieldName(fa.X.Type(), fa.Field)
	// a store in the loading function that may reach the load makes the helper's value stale
	for _, st := range StoresToField(u.Parent(), fa.X, field) {
		if st.Parent() == u.Parent() && !Dominates(u, st) {
			return nil, nil, false
		}
	}
	var vals []ssa.Value
	for _, al := range allocs {
		sts := StoresToField(callee, al, field)
		if len(sts) != 1 {
			return nil, nil, false
		}
		vals = append(vals, sts[0].Val)
	}
	return vals, call, true
}

// CopyHelperArg recognises a call of a defensive-copy helper of the module —
// one slice parameter, a result of the same type, a body that does nothing but
// test the parameter for nil/emptiness and copy it element by element into a
// new slice (make+copy, or append onto an empty slice) — and returns the
// argument: for questions about *content* (which list is this, where do its
// elements come from) the result is the argument. It is not the same storage;
// ownership and alias rules must not use this.
func CopyHelperArg(v ssa.Value) (ssa.Value, bool) {
	call, ok := v.(*ssa.Call)
	if !ok {
		return nil, false
	}
	fn := call.Call.StaticCallee()
	if fn == nil || fn.Blocks == nil || !InModule(fn) || len(fn.Blocks) > 6 {
		return nil, false
	}
	sig := fn.Signature
	if sig.Recv() != nil || sig.Params().Len() != 1 || sig.Results().Len() != 1 || len(call.Call.Args) != 1 {
		return nil, false
	}
	if _, isSlice := sig.Params().At(0).Type().Underlying().(*types.Slice); !isSlice {
		return nil, false
	}
	if !types.Identical(sig.Params().At(0).Type(), sig.Results().At(0).Type()) {
		return nil, false
	}
	prm := fn.Params[0]
	copies := false
	clean := true
	EachInstr(fn, func(in ssa.Instruction) {
		switch x := in.(type) {
		case *ssa.Call:
			b, isB := x.Call.Value.(*ssa.Builtin)
			if !isB {
				clean = false
				return
			}
			switch b.Name() {
			case "copy":
				if len(x.Call.Args) == 2 && x.Call.Args[1] == ssa.Value(prm) {
					copies = true
				}
			case "append":
				if len(x.Call.Args) == 2 && x.Call.Args[1] == ssa.Value(prm) {
					copies = true
				}
			case "len", "cap":
			default:
				clean = false
			}
		case *ssa.Store, *ssa.MapUpdate, *ssa.Go, *ssa.Defer, *ssa.Send:
			// (the varargs packing of append does not occur: append(x, s...) passes s itself)
			clean = false
		}
	})
	if !copies || !clean {
		return nil, false
	}
	for _, ret := range Returns(fn) {
		for _, r := range ResolveAll(RetVal(ret, 0)) {
			switch y := r.(type) {
			case *ssa.Const:
				if !IsNilConst(y) {
					return nil, false
				}
			case *ssa.Parameter, *ssa.MakeSlice, *ssa.Slice, *ssa.Call:
			default:
				return nil, false
			}
		}
	}
	return call.Call.Args[0], true
}

// ContentOf resolves v and looks through defensive-copy helpers: the value
// whose elements v holds.
func ContentOf(v ssa.Value) ssa.Value {
	for i := 0; i < 4; i++ {
		r := Resolve(v)
		arg, ok := CopyHelperArg(r)
		if !ok {
			return r
		}
		v = arg
	}
	return Resolve(v)
}

// CollectedFieldSources resolves a read of field f of an element taken from a slice that the function itself
// collected (s = append(s, T{…f: x…}) in an earlier pass, then ranged over or indexed): it returns the values x
// stored into f by the struct literals appended to that slice, or nil when v is not such a read. The result is a
// may-set (which element is read is not tracked).
func CollectedFieldSources(v ssa.Value) []ssa.Value {
	var elem ssa.Value
	field := -1
	switch x := v.(type) {
	case *ssa.Field:
		elem, field = x.X, x.Field
	case *ssa.UnOp:
		if fa, ok := x.X.(*ssa.FieldAddr); ok && x.Op == token.MUL {
			elem, field = fa.X, fa.Field
		}
	}
	if elem == nil {
		return nil
	}
	// the element: a load of &s[i] (or that address itself)
	var slice ssa.Value
	cands := append(Sources(elem), elem)
	// the loop variable as a local: the element is copied into it whole at the top of each pass
	if al, ok := elem.(*ssa.Alloc); ok && al.Referrers() != nil {
		for _, r := range *al.Referrers() {
			if st, ok := r.(*ssa.Store); ok && st.Addr == ssa.Value(al) {
				cands = append(cands, st.Val)
			}
		}
	}
	for _, src := range cands {
		if u, ok := src.(*ssa.UnOp); ok && u.Op == token.MUL {
			src = u.X
		}
		if ia, ok := src.(*ssa.IndexAddr); ok {
			slice = ia.X
		}
	}
	if slice == nil {
		return nil
	}
	var out []ssa.Value
	seen := map[ssa.Value]bool{}
	var walk func(s ssa.Value, d int)
	walk = func(s ssa.Value, d int) {
		if s == nil || seen[s] || d > 6 {
			return
		}
		seen[s] = true
		for _, src := range Sources(s) {
			call, ok := src.(*ssa.Call)
			if !ok {
				continue
			}
			b, ok := call.Call.Value.(*ssa.Builtin)
			if !ok || b.Name() != "append" || len(call.Call.Args) != 2 {
				continue
			}
			walk(call.Call.Args[0], d+1)
			for _, el := range VariadicElems(call.Call.Args[1]) {
				if el == nil {
					continue
				}
				// a struct literal: load of a local whose fields were stored one by one
				u, ok := el.(*ssa.UnOp)
				if !ok || u.Op != token.MUL {
					continue
				}
				al, ok := u.X.(*ssa.Alloc)
				if !ok || al.Referrers() == nil {
					continue
				}
				for _, r := range *al.Referrers() {
					fa, ok := r.(*ssa.FieldAddr)
					if !ok || fa.Field != field || fa.Referrers() == nil {
						continue
					}
					for _, rr := range *fa.Referrers() {
						if st, ok := rr.(*ssa.Store); ok && st.Addr == ssa.Value(fa) {
							out = append(out, st.Val)
						}
					}
				}
			}
		}
	}
	walk(slice, 0)
	return out
}
