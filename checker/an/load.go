// Package an holds the property-independent part of the taskctl static
// checker: loading the type-checked program, SSA helpers, and the engines
// described in /verif/DESIGN.md §2.
package an

import (
	"fmt"
	"go/token"
	"go/types"
	"os"
	"sort"
	"strings"

	"golang.org/x/tools/go/packages"
	"golang.org/x/tools/go/ssa"
	"golang.org/x/tools/go/ssa/ssautil"
)

// ModulePath is the module under analysis.
const ModulePath = "github.com/taskctl/taskctl"

// Prog is the loaded program.
type Prog struct {
	// BudgetExhausted lists the functions whose path exploration hit the path budget.
	BudgetExhausted []string

	Root    string
	Tier    string
	Tags    string
	GOOS    string
	Fset    *token.FileSet
	Pkgs    []*packages.Package // module packages, sorted by path
	SSA     *ssa.Program
	ModPkgs map[string]*ssa.Package // by import path
	// Funcs is every function with a body that belongs to the module
	// (package-level functions, methods, anonymous functions), sorted.
	Funcs []*ssa.Function
	// Whole is true when dependencies were loaded from source too.
	Whole bool

	impls map[*types.Func][]*ssa.Function

	// thorough tier: VTA call graph restricted to call sites in module functions
	vta      map[ssa.CallInstruction][]*ssa.Function
	vtaStats map[string]int
}

// LoadOpts selects what to load.
type LoadOpts struct {
	Root  string
	Whole bool   // load dependencies from source (thorough tier)
	Tags  string // build tags
	GOOS  string
	Tests bool
}

// Load type-checks the module at opts.Root and builds its SSA form.
func Load(opts LoadOpts) (*Prog, error) {
	mode := packages.NeedName | packages.NeedFiles | packages.NeedCompiledGoFiles |
		packages.NeedImports | packages.NeedTypes | packages.NeedSyntax |
		packages.NeedTypesInfo | packages.NeedTypesSizes | packages.NeedModule | packages.NeedDeps
	env := []string{}
	for _, kv := range os.Environ() {
		if strings.HasPrefix(kv, "GOWORK=") || strings.HasPrefix(kv, "GOFLAGS=") ||
			strings.HasPrefix(kv, "GOPROXY=") || strings.HasPrefix(kv, "GOSUMDB=") ||
			strings.HasPrefix(kv, "GOTOOLCHAIN=") || strings.HasPrefix(kv, "GOOS=") {
			continue
		}
		env = append(env, kv)
	}
	env = append(env, "GOWORK=off", "GOFLAGS=-mod=mod", "GOPROXY=off", "GOSUMDB=off", "GOTOOLCHAIN=local")
	if opts.GOOS != "" {
		env = append(env, "GOOS="+opts.GOOS, "CGO_ENABLED=0")
	}
	cfg := &packages.Config{
		Mode:  mode,
		Dir:   opts.Root,
		Env:   env,
		Tests: opts.Tests,
		Fset:  token.NewFileSet(),
	}
	if opts.Tags != "" {
		cfg.BuildFlags = []string{"-tags=" + opts.Tags}
	}
	initial, err := packages.Load(cfg, "./...")
	if err != nil {
		return nil, fmt.Errorf("packages.Load: %v", err)
	}
	if len(initial) == 0 {
		return nil, fmt.Errorf("no packages loaded from %s", opts.Root)
	}
	var errs []string
	packages.Visit(initial, nil, func(p *packages.Package) {
		if p.Module == nil || p.Module.Path != ModulePath {
			return
		}
		for _, e := range p.Errors {
			errs = append(errs, e.Error())
		}
	})
	if len(errs) > 0 {
		return nil, fmt.Errorf("type errors in module packages:\n  %s", strings.Join(errs, "\n  "))
	}
	sort.Slice(initial, func(i, j int) bool { return initial[i].PkgPath < initial[j].PkgPath })

	p := &Prog{Root: opts.Root, Tags: opts.Tags, GOOS: opts.GOOS, Fset: cfg.Fset, Whole: opts.Whole,
		ModPkgs: map[string]*ssa.Package{}, impls: map[*types.Func][]*ssa.Function{}}
	bmode := ssa.InstantiateGenerics
	var prog *ssa.Program
	var spkgs []*ssa.Package
	if opts.Whole {
		prog, spkgs = ssautil.AllPackages(initial, bmode)
	} else {
		// only the module's packages get function bodies
		prog, spkgs = ssautil.AllPackages(initial, bmode)
	}
	_ = spkgs
	p.SSA = prog
	for _, ip := range initial {
		if ip.Module == nil || ip.Module.Path != ModulePath {
			continue
		}
		if opts.Tests && strings.HasSuffix(ip.ID, "]") {
			// test variants are kept out of the analysed program
		}
		sp := prog.Package(ip.Types)
		if sp == nil {
			return nil, fmt.Errorf("no SSA package for %s", ip.PkgPath)
		}
		p.Pkgs = append(p.Pkgs, ip)
		p.ModPkgs[ip.PkgPath] = sp
	}
	if opts.Whole {
		prog.Build()
	} else {
		for _, sp := range p.ModPkgs {
			sp.Build()
		}
	}
	if len(p.Pkgs) < 10 {
		return nil, fmt.Errorf("only %d module packages loaded, expected at least 10", len(p.Pkgs))
	}
	p.collectFuncs()
	CurrentProg = p
	if opts.Whole {
		p.buildVTA()
	}
	return p, nil
}

func (p *Prog) collectFuncs() {
	seen := map[*ssa.Function]bool{}
	var add func(f *ssa.Function)
	add = func(f *ssa.Function) {
		if f == nil || seen[f] || f.Blocks == nil || f.Synthetic != "" {
			// synthetic functions (package initialisers, wrappers) are not source
			return
		}
		seen[f] = true
		p.Funcs = append(p.Funcs, f)
		for _, a := range f.AnonFuncs {
			add(a)
		}
	}
	for _, sp := range p.ModPkgs {
		for _, m := range sp.Members {
			switch m := m.(type) {
			case *ssa.Function:
				add(m)
			case *ssa.Type:
				for _, t := range []types.Type{m.Type(), types.NewPointer(m.Type())} {
					ms := p.SSA.MethodSets.MethodSet(t)
					for i := 0; i < ms.Len(); i++ {
						f := p.SSA.MethodValue(ms.At(i))
						if f != nil && f.Pkg == sp && f.Synthetic == "" {
							add(f)
						}
					}
				}
			}
		}
	}
	sort.Slice(p.Funcs, func(i, j int) bool { return p.Funcs[i].String() < p.Funcs[j].String() })
}

// Pos renders a position relative to the analysed root.
func (p *Prog) Pos(pos token.Pos) string {
	if !pos.IsValid() {
		return "-"
	}
	ps := p.Fset.Position(pos)
	f := strings.TrimPrefix(ps.Filename, p.Root+"/")
	return fmt.Sprintf("%s:%d", f, ps.Line)
}

// CallGraphStats summarises the whole-program call graph (thorough tier).
func (p *Prog) CallGraphStats() map[string]int {
	if p.vtaStats == nil {
		return map[string]int{}
	}
	return p.vtaStats
}
