package an

import (
	"fmt"
	"go/constant"
	"go/token"
	"go/types"
	"io"
	"sort"
	"strings"

	"golang.org/x/tools/go/ssa"
)

// ---------------------------------------------------------------------------
// lookup

// Pkg returns the module package whose path ends in suffix ("pkg/scheduler").
func (p *Prog) Pkg(suffix string) *ssa.Package {
	if sp, ok := p.ModPkgs[ModulePath+"/"+suffix]; ok {
		return sp
	}
	return nil
}

// Func finds a function of the module: recv=="" for package-level functions,
// otherwise the (pointer or value) receiver's type name.
// FuncFallback, when set, is asked for a function that Func does not find under its name (rules/rolefallback.go:
// unexported functions found by what they are).
var FuncFallback func(p *Prog, pkgSuffix, recv, name string) *ssa.Function

func (p *Prog) Func(pkgSuffix, recv, name string) *ssa.Function {
	if f := p.funcByName(pkgSuffix, recv, name); f != nil {
		return f
	}
	if FuncFallback != nil {
		return FuncFallback(p, pkgSuffix, recv, name)
	}
	return nil
}

func (p *Prog) funcByName(pkgSuffix, recv, name string) *ssa.Function {
	sp := p.Pkg(pkgSuffix)
	if sp == nil {
		return nil
	}
	if recv == "" {
		return sp.Func(name)
	}
	t := sp.Type(recv)
	if t == nil {
		t = p.typeByAlias(sp, recv)
	}
	if t == nil {
		return nil
	}
	for _, ty := range []types.Type{types.NewPointer(t.Type()), t.Type()} {
		sel := p.SSA.MethodSets.MethodSet(ty).Lookup(sp.Pkg, name)
		if sel != nil {
			if f := p.SSA.MethodValue(sel); f != nil {
				// unwrap pointer-receiver wrapper of value methods
				if f.Synthetic != "" {
					continue
				}
				return f
			}
		}
	}
	return nil
}

// Named returns a named type of the module.
func (p *Prog) Named(pkgSuffix, name string) *types.Named {
	sp := p.Pkg(pkgSuffix)
	if sp == nil {
		return nil
	}
	t := sp.Type(name)
	if t == nil {
		t = p.typeByAlias(sp, name)
	}
	if t == nil {
		return nil
	}
	n, _ := t.Type().(*types.Named)
	return n
}

// typeByAlias finds the type of sp whose reference name is name.
func (p *Prog) typeByAlias(sp *ssa.Package, name string) *ssa.Type {
	var found *ssa.Type
	for _, m := range sp.Members {
		tn, ok := m.(*ssa.Type)
		if !ok {
			continue
		}
		if n, ok := tn.Type().(*types.Named); ok && n.Obj().Name() != name && TypeName(n) == name {
			if found != nil {
				return nil
			}
			found = tn
		}
	}
	return found
}

// Const returns the integer value of a package-level constant.
func (p *Prog) Const(pkgSuffix, name string) (int64, bool) {
	sp := p.Pkg(pkgSuffix)
	if sp == nil {
		return 0, false
	}
	c := sp.Const(name)
	if c == nil || c.Value == nil || c.Value.Value == nil {
		return 0, false
	}
	if c.Value.Value.Kind() != constant.Int {
		return 0, false
	}
	return c.Value.Int64(), true
}

// InModule reports whether fn belongs to the analysed module.
func InModule(fn *ssa.Function) bool {
	for fn != nil && fn.Parent() != nil {
		fn = fn.Parent()
	}
	return fn != nil && fn.Pkg != nil && strings.HasPrefix(fn.Pkg.Pkg.Path(), ModulePath)
}

// Short renders a function name without the module prefix.
func Short(fn *ssa.Function) string {
	if fn == nil {
		return "<nil>"
	}
	return Canon(strings.ReplaceAll(fn.String(), ModulePath+"/", ""))
}

// Canon writes the name of a method of a module type without the pointer star — "(pkg/x.T).M" for both
// func (t T) M and func (t *T) M — so that turning a value receiver into a pointer receiver (or back) does not
// change the name a rule knows the method by. Library methods keep their form.
func Canon(name string) string {
	if !strings.HasPrefix(name, "(") || len(name) < 2 || name[1] != '*' {
		return name
	}
	for _, pre := range []string{"pkg/", "internal/", "cmd/"} {
		if strings.HasPrefix(name[2:], pre) {
			return "(" + name[2:]
		}
	}
	return name
}

// Outer returns the outermost enclosing function.
func Outer(fn *ssa.Function) *ssa.Function {
	for fn.Parent() != nil {
		fn = fn.Parent()
	}
	return fn
}

// ---------------------------------------------------------------------------
// types

// Deref strips one pointer.
func Deref(t types.Type) types.Type {
	if p, ok := t.Underlying().(*types.Pointer); ok {
		return p.Elem()
	}
	return t
}

// TypeIs reports whether t (or *t) is the named type pkgPath.name; pkgPath is
// a full import path or a module-relative suffix.
func TypeIs(t types.Type, pkgPath, name string) bool {
	n, ok := Deref(t).(*types.Named)
	if !ok {
		return false
	}
	o := n.Obj()
	if o.Pkg() == nil || (o.Name() != name && TypeName(n) != name) {
		return false
	}
	return o.Pkg().Path() == pkgPath || o.Pkg().Path() == ModulePath+"/"+pkgPath
}

// TypeAlias, when set, gives the reference name of a named type of the module that is not known under that name any
// more (rules/rolefallback.go: unexported types — and types un-exported since — recognised by what they are).
var TypeAlias func(n *types.Named) string

var typeNameCache = map[*types.Named]string{}

// TypeName is the name rules know the type by: its own, or its reference name.
func TypeName(n *types.Named) string {
	if s, ok := typeNameCache[n]; ok {
		return s
	}
	s := n.Obj().Name()
	if TypeAlias != nil && n.Obj().Pkg() != nil && strings.HasPrefix(n.Obj().Pkg().Path(), ModulePath) {
		if a := TypeAlias(n); a != "" {
			s = a
		}
	}
	typeNameCache[n] = s
	return s
}

// ---------------------------------------------------------------------------
// callees

// CalleeName gives a canonical name for the target of a call:
//
//	"(*sync.WaitGroup).Add", "sync/atomic.StoreInt32", "builtin.len",
//	"(github.com/taskctl/taskctl/pkg/runner.Runner).Run" for interface calls,
//	"closure" / "dynamic" otherwise.
func CalleeName(c *ssa.CallCommon) string {
	if c.IsInvoke() {
		recv := c.Value.Type()
		return fmt.Sprintf("(%s).%s", types.TypeString(recv, nil), c.Method.Name())
	}
	switch v := c.Value.(type) {
	case *ssa.Function:
		return v.String()
	case *ssa.Builtin:
		return "builtin." + v.Name()
	case *ssa.MakeClosure:
		return v.Fn.(*ssa.Function).String()
	}
	if f := c.StaticCallee(); f != nil {
		return f.String()
	}
	return "dynamic"
}

// IsCall reports whether instr is a call (plain, go or defer) to the named
// target; names are matched after stripping the module prefix, so
// "(pkg/scheduler.Stage).ReadStatus" works.
func IsCallTo(instr ssa.Instruction, names ...string) (*ssa.CallCommon, bool) {
	ci, ok := instr.(ssa.CallInstruction)
	if !ok {
		return nil, false
	}
	n := Canon(strings.ReplaceAll(CalleeName(ci.Common()), ModulePath+"/", ""))
	for _, want := range names {
		if n == Canon(want) {
			return ci.Common(), true
		}
	}
	// a call through an interface of the module that exactly one module type implements is a call of
	// that type's method: it is presented in the static shape (receiver first among the arguments)
	if cc := ci.Common(); cc.IsInvoke() && CurrentProg != nil {
		if named, ok := cc.Value.Type().(*types.Named); ok && named.Obj().Pkg() != nil && strings.HasPrefix(named.Obj().Pkg().Path(), ModulePath) {
			impls := CurrentProg.Callees(cc)
			if len(impls) == 0 {
				// no type of the module implements it: an interface of the module put in front of a library
				// type (a bufio.Writer behind a "flushWriter"). When every value converted to the interface
				// anywhere in the module has one and the same concrete type, the call is that type's method
				if t := soleDynamicType(CurrentProg, named); t != nil {
					if sel := CurrentProg.SSA.MethodSets.MethodSet(t).Lookup(cc.Method.Pkg(), cc.Method.Name()); sel != nil {
						if f := CurrentProg.SSA.MethodValue(sel); f != nil {
							impls = []*ssa.Function{f}
						}
					}
				}
			}
			if len(impls) == 1 {
				in := Canon(strings.ReplaceAll(impls[0].String(), ModulePath+"/", ""))
				for _, want := range names {
					if in == Canon(want) {
						return &ssa.CallCommon{Value: impls[0], Args: append([]ssa.Value{cc.Value}, cc.Args...)}, true
					}
				}
			}
		}
	}
	return nil, false
}

// CurrentProg is the program being analysed (set by Load); IsCallTo uses it to
// resolve calls through single-implementation interfaces of the module.
var CurrentProg *Prog

// ShortCallee is CalleeName without the module prefix.
func ShortCallee(c *ssa.CallCommon) string {
	return Canon(strings.ReplaceAll(CalleeName(c), ModulePath+"/", ""))
}

// Callees resolves the module functions a call may reach: the static callee,
// a closure's function, or — for interface calls — every module method
// implementing the interface method (class-hierarchy resolution restricted
// to the module; the thorough tier refines this with VTA).
func (p *Prog) Callees(c *ssa.CallCommon) []*ssa.Function {
	if !c.IsInvoke() {
		switch v := c.Value.(type) {
		case *ssa.Function:
			return []*ssa.Function{v}
		case *ssa.MakeClosure:
			return []*ssa.Function{p.Unwrap(v.Fn.(*ssa.Function))}
		case *ssa.Builtin:
			return nil
		}
		// a func-typed local: look through cells / phis to closures
		var out []*ssa.Function
		add := func(f *ssa.Function) {
			for _, o := range out {
				if o == f {
					return
				}
			}
			out = append(out, f)
		}
		var walk func(v ssa.Value, depth int)
		walk = func(v ssa.Value, depth int) {
			for _, r := range Sources(v) {
				switch v := r.(type) {
				case *ssa.Function:
					add(v)
				case *ssa.MakeClosure:
					add(p.Unwrap(v.Fn.(*ssa.Function)))
				case *ssa.ChangeType:
					walk(v.X, depth)
				case *ssa.Call:
					// a function picked by a selector of the module: what the selector returns
					if sel := v.Call.StaticCallee(); sel != nil && sel.Blocks != nil && InModule(sel) && depth > 0 {
						for _, ret := range Returns(sel) {
							if len(ret.Results) == 1 {
								walk(RetVal(ret, 0), depth-1)
							}
						}
					}
				}
			}
		}
		walk(c.Value, 2)
		return out
	}
	if fs, ok := p.impls[c.Method]; ok {
		return fs
	}
	var out []*ssa.Function
	iface, _ := c.Value.Type().Underlying().(*types.Interface)
	if iface != nil {
		for _, sp := range p.ModPkgs {
			for _, m := range sp.Members {
				tm, ok := m.(*ssa.Type)
				if !ok {
					continue
				}
				for _, ty := range []types.Type{tm.Type(), types.NewPointer(tm.Type())} {
					if types.IsInterface(ty) || !types.Implements(ty, iface) {
						continue
					}
					sel := p.SSA.MethodSets.MethodSet(ty).Lookup(c.Method.Pkg(), c.Method.Name())
					if sel == nil {
						continue
					}
					f := p.SSA.MethodValue(sel)
					if f == nil {
						continue
					}
					if f.Synthetic != "" {
						// wrapper: find the declared method it forwards to
						if obj, ok := sel.Obj().(*types.Func); ok {
							if d := p.SSA.FuncValue(obj); d != nil {
								f = d
							}
						}
					}
					dup := false
					for _, o := range out {
						if o == f {
							dup = true
						}
					}
					if !dup {
						out = append(out, f)
					}
				}
			}
		}
	}
	sort.Slice(out, func(i, j int) bool { return out[i].String() < out[j].String() })
	p.impls[c.Method] = out
	return out
}

// EdgeKind classifies how a callee is entered.
type EdgeKind int

const (
	EdgeCall EdgeKind = iota
	EdgeGo
	EdgeDefer
)

// CallEdge is one resolved call.
type CallEdge struct {
	Site   ssa.CallInstruction
	Caller *ssa.Function
	Callee *ssa.Function
	Kind   EdgeKind
}

// OutEdges lists the resolved module-internal call edges of fn, including
// edges to closures that fn creates and passes to known higher-order library
// functions ((*sync.Once).Do, (*sync.Map).Range, sort.Slice) and closures it
// calls, defers or starts itself.
func (p *Prog) OutEdges(fn *ssa.Function) []CallEdge {
	var out []CallEdge
	for _, b := range fn.Blocks {
		for _, in := range b.Instrs {
			ci, ok := in.(ssa.CallInstruction)
			if !ok {
				continue
			}
			kind := EdgeCall
			switch in.(type) {
			case *ssa.Go:
				kind = EdgeGo
			case *ssa.Defer:
				kind = EdgeDefer
			}
			direct := p.Callees(ci.Common())
			for _, callee := range direct {
				out = append(out, CallEdge{ci, fn, callee, kind})
			}
			// thorough tier: what the whole-program VTA graph adds (function values, callbacks)
			for _, callee := range p.VTACallees(ci) {
				dup := false
				for _, d := range direct {
					if d == callee {
						dup = true
					}
				}
				if !dup {
					out = append(out, CallEdge{ci, fn, callee, kind})
				}
			}
			// closures handed to higher-order functions run synchronously
			// inside the call (Once.Do, Map.Range, sort.Slice, Opts)
			for _, a := range ci.Common().Args {
				for _, r := range Sources(a) {
					if mc, ok := r.(*ssa.MakeClosure); ok {
						f := p.Unwrap(mc.Fn.(*ssa.Function))
						already := false
						for _, callee := range p.Callees(ci.Common()) {
							if callee == f {
								already = true
							}
						}
						if !already {
							out = append(out, CallEdge{ci, fn, f, kind})
						}
					}
				}
			}
		}
	}
	return out
}

// Reach computes the functions reachable from roots following edges accepted
// by follow (nil = all). The map value is one witness path.
func (p *Prog) Reach(roots []*ssa.Function, follow func(CallEdge) bool) map[*ssa.Function][]CallEdge {
	seen := map[*ssa.Function][]CallEdge{}
	var work []*ssa.Function
	for _, r := range roots {
		if r != nil {
			if _, ok := seen[r]; !ok {
				seen[r] = nil
				work = append(work, r)
			}
		}
	}
	for len(work) > 0 {
		f := work[0]
		work = work[1:]
		if f.Blocks == nil {
			continue
		}
		for _, e := range p.OutEdges(f) {
			if follow != nil && !follow(e) {
				continue
			}
			if _, ok := seen[e.Callee]; ok {
				continue
			}
			path := append(append([]CallEdge{}, seen[f]...), e)
			seen[e.Callee] = path
			work = append(work, e.Callee)
		}
	}
	return seen
}

// PathString renders a witness call path.
func (p *Prog) PathString(path []CallEdge) string {
	if len(path) == 0 {
		return "(root)"
	}
	var parts []string
	parts = append(parts, Short(path[0].Caller))
	for _, e := range path {
		k := "→"
		if e.Kind == EdgeGo {
			k = "→go "
		} else if e.Kind == EdgeDefer {
			k = "→defer "
		}
		parts = append(parts, k+Short(e.Callee)+"@"+p.Pos(e.Site.Pos()))
	}
	return strings.Join(parts, " ")
}

// ---------------------------------------------------------------------------
// value resolution

// stores returns every Store to the cell.
func stores(cell ssa.Value) []*ssa.Store {
	var out []*ssa.Store
	refs := cell.Referrers()
	if refs == nil {
		return nil
	}
	for _, r := range *refs {
		if st, ok := r.(*ssa.Store); ok && st.Addr == cell {
			out = append(out, st)
		}
	}
	return out
}

// escapesBeyondClosures reports whether an Alloc's address is used for
// anything but loads, stores, field addressing and closure capture.
func cellIsSimple(a *ssa.Alloc) bool {
	refs := a.Referrers()
	if refs == nil {
		return true
	}
	for _, r := range *refs {
		switch r := r.(type) {
		case *ssa.Store:
			if r.Val == a {
				return false
			}
		case *ssa.UnOp, *ssa.MakeClosure, *ssa.DebugRef:
		default:
			return false
		}
	}
	return true
}

// freeVarBinding maps a free variable of a closure to the value bound at the
// MakeClosure site in the parent.
func freeVarBinding(fv *ssa.FreeVar) ssa.Value {
	fn := fv.Parent()
	par := fn.Parent()
	if par == nil {
		return nil
	}
	idx := -1
	for i, f := range fn.FreeVars {
		if f == fv {
			idx = i
		}
	}
	if idx < 0 {
		return nil
	}
	for _, b := range par.Blocks {
		for _, in := range b.Instrs {
			if mc, ok := in.(*ssa.MakeClosure); ok && mc.Fn == fn {
				return mc.Bindings[idx]
			}
		}
	}
	return nil
}

// ResolveAll looks through conversions, interface boxing, closure-captured
// and address-taken cells (all stored values) and free variables, and returns
// the set of underlying values v may denote. φ nodes are leaves: a φ is a
// value of its own (a loop-carried variable, a merge of alternatives).
func ResolveAll(v ssa.Value) []ssa.Value { return resolveAll(v, false) }

// Sources is ResolveAll that also looks through φ nodes: every value that may
// flow into v.
func Sources(v ssa.Value) []ssa.Value { return resolveAll(v, true) }

func resolveAll(v ssa.Value, throughPhi bool) []ssa.Value {
	seen := map[ssa.Value]bool{}
	var out []ssa.Value
	var walk func(v ssa.Value)
	walk = func(v ssa.Value) {
		if v == nil || seen[v] {
			return
		}
		seen[v] = true
		switch x := v.(type) {
		case *ssa.ChangeType:
			walk(x.X)
		case *ssa.ChangeInterface:
			walk(x.X)
		case *ssa.MakeInterface:
			walk(x.X)
		case *ssa.Phi:
			if !throughPhi {
				out = append(out, v)
				return
			}
			for _, e := range x.Edges {
				walk(e)
			}
		case *ssa.FreeVar:
			if b := freeVarBinding(x); b != nil {
				walk(b)
			} else {
				out = append(out, v)
			}
		case *ssa.UnOp:
			if x.Op == token.MUL {
				// load: through a local cell to what was stored
				base := x.X
				// (a cell captured through several nested closures is bound free variable to free variable)
				for i := 0; i < 8; i++ {
					fv, ok := base.(*ssa.FreeVar)
					if !ok {
						break
					}
					b := freeVarBinding(fv)
					if b == nil {
						break
					}
					base = b
				}
				if a, ok := base.(*ssa.Alloc); ok && cellIsSimple(a) {
					sts := stores(a)
					if len(sts) > 0 {
						for _, st := range sts {
							walk(st.Val)
						}
						return
					}
				}
				// a field of a per-call "method object" (the locals of a long function parked in a small struct whose
				// methods are its phases): what any phase stored there
				if fa, ok := base.(*ssa.FieldAddr); ok {
					if vals := methodObjectField(fa); len(vals) > 0 {
						for _, sv := range vals {
							walk(sv)
						}
						return
					}
				}
			}
			out = append(out, v)
		default:
			out = append(out, v)
		}
	}
	walk(v)
	return out
}

// Resolve is ResolveAll when it yields a single value, else v itself
// stripped of conversions only.
func Resolve(v ssa.Value) ssa.Value {
	all := ResolveAll(v)
	if len(all) == 1 {
		return all[0]
	}
	for {
		switch x := v.(type) {
		case *ssa.ChangeType:
			v = x.X
			continue
		case *ssa.ChangeInterface:
			v = x.X
			continue
		case *ssa.MakeInterface:
			v = x.X
			continue
		}
		return v
	}
}

// SameValue reports whether a and b resolve to the same single value.
func SameValue(a, b ssa.Value) bool {
	ra, rb := ResolveAll(a), ResolveAll(b)
	return len(ra) == 1 && len(rb) == 1 && ra[0] == rb[0]
}

// Access is a root value followed by a chain of field selections.
type Access struct {
	Base   ssa.Value
	Fields []string
}

func (a Access) String() string {
	s := Prov(a.Base)
	for _, f := range a.Fields {
		s += "." + f
	}
	return s
}

// Is reports whether the access is base.fields...
func (a Access) Is(base ssa.Value, fields ...string) bool {
	if !SameValue(a.Base, base) && a.Base != base {
		return false
	}
	if len(a.Fields) != len(fields) {
		return false
	}
	for i := range fields {
		if a.Fields[i] != fields[i] {
			return false
		}
	}
	return true
}

// LastField returns the final selected field, or "".
func (a Access) LastField() string {
	if len(a.Fields) == 0 {
		return ""
	}
	return a.Fields[len(a.Fields)-1]
}

func fieldName(t types.Type, i int) string {
	st, ok := Deref(t).Underlying().(*types.Struct)
	if !ok || i >= st.NumFields() {
		return fmt.Sprintf("#%d", i)
	}
	if alias := fieldAlias(Deref(t), st, i); alias != "" {
		return alias
	}
	return st.Field(i).Name()
}

// fieldAlias: rules name fields of module structs by the names of the reference tree ("TaskRunner.cleanupList").
// An unexported field that was renamed is still recognised by what it is: when its type is unique among the
// fields of its struct, the reference tree had a field of that type in the struct of the same name, and no field of
// the struct carries the reference name any more, the field is reported under the reference name.
func fieldAlias(t types.Type, st *types.Struct, i int) string {
	named, ok := t.(*types.Named)
	if !ok || named.Obj().Pkg() == nil || !strings.HasPrefix(named.Obj().Pkg().Path(), ModulePath) {
		return ""
	}
	f := st.Field(i)
	if f.Exported() || f.Embedded() {
		return ""
	}
	key, unique := fieldTableKey(named, st, i)
	if !unique {
		if FieldAliasHook != nil {
			return FieldAliasHook(named, st, i)
		}
		return ""
	}
	ref, ok := FieldTable[key]
	if !ok || ref == f.Name() {
		return ""
	}
	for j := 0; j < st.NumFields(); j++ {
		if st.Field(j).Name() == ref {
			return ""
		}
	}
	return ref
}

// FieldAliasHook is asked for fields the table cannot tell apart (several fields of one type in a struct).
var FieldAliasHook func(named *types.Named, st *types.Struct, i int) string

func fieldTableKey(named *types.Named, st *types.Struct, i int) (string, bool) {
	ts := strings.ReplaceAll(st.Field(i).Type().String(), ModulePath+"/", "")
	n := 0
	for j := 0; j < st.NumFields(); j++ {
		if strings.ReplaceAll(st.Field(j).Type().String(), ModulePath+"/", "") == ts {
			n++
		}
	}
	pkg := strings.TrimPrefix(strings.TrimPrefix(named.Obj().Pkg().Path(), ModulePath), "/")
	return pkg + "." + TypeName(named) + "|" + ts, n == 1
}

// DumpFieldTable prints the reference table for the loaded tree as Go source.
func DumpFieldTable(p *Prog, w io.Writer) {
	var lines []string
	for _, pkg := range p.SSA.AllPackages() {
		if pkg.Pkg == nil || !strings.HasPrefix(pkg.Pkg.Path(), ModulePath) {
			continue
		}
		for _, m := range pkg.Members {
			tn, ok := m.(*ssa.Type)
			if !ok {
				continue
			}
			named, ok := tn.Type().(*types.Named)
			if !ok {
				continue
			}
			st, ok := named.Underlying().(*types.Struct)
			if !ok {
				continue
			}
			for i := 0; i < st.NumFields(); i++ {
				f := st.Field(i)
				if f.Exported() || f.Embedded() {
					continue
				}
				if key, unique := fieldTableKey(named, st, i); unique {
					lines = append(lines, fmt.Sprintf("\t%q: %q,", key, f.Name()))
				}
			}
		}
	}
	sort.Strings(lines)
	fmt.Fprintln(w, "package an\n\n// Code generated by `taskverif -dump-field-table -root /repo`; the reference names of the unexported struct\n// fields whose type is unique within their struct (see fieldAlias).\nvar FieldTable = map[string]string{")
	for _, l := range lines {
		fmt.Fprintln(w, l)
	}
	fmt.Fprintln(w, "}")
}

// AccessPath decomposes v (an address or a loaded value) into a root and the
// fields selected from it; loads and resolvable cells are looked through.
func AccessPath(v ssa.Value) Access {
	var fields []string
	for i := 0; i < 64; i++ {
		v = Resolve(v)
		switch x := v.(type) {
		case *ssa.FieldAddr:
			fields = append([]string{fieldName(x.X.Type(), x.Field)}, fields...)
			v = x.X
			continue
		case *ssa.Field:
			fields = append([]string{fieldName(x.X.Type(), x.Field)}, fields...)
			v = x.X
			continue
		case *ssa.UnOp:
			if x.Op == token.MUL {
				// a load that Resolve could not look through: dereferencing
				// selects no field; the path continues with the address when
				// that is itself part of a field path or a plain pointer
				// variable, and ends at the loaded value otherwise (an
				// element of a slice or map, a call result)
				switch x.X.(type) {
				case *ssa.FieldAddr, *ssa.UnOp, *ssa.Parameter, *ssa.FreeVar, *ssa.Alloc, *ssa.Global:
					v = x.X
					continue
				}
			}
		}
		break
	}
	return Access{Base: v, Fields: fields}
}

func isFieldAddr(v ssa.Value) bool { _, ok := v.(*ssa.FieldAddr); return ok }

// Prov renders the provenance of a value as a position-free string.
func Prov(v ssa.Value) string { return prov(v, 0) }

func prov(v ssa.Value, depth int) string {
	if v == nil {
		return "nil"
	}
	if depth > 8 {
		return "…"
	}
	all := ResolveAll(v)
	if len(all) > 1 {
		var parts []string
		seen := map[string]bool{}
		for _, a := range all {
			s := prov1(a, depth+1)
			if !seen[s] {
				seen[s] = true
				parts = append(parts, s)
			}
		}
		sort.Strings(parts)
		if len(parts) == 1 {
			return parts[0]
		}
		return "{" + strings.Join(parts, " | ") + "}"
	}
	if len(all) == 1 {
		v = all[0]
	}
	return prov1(v, depth)
}

func prov1(v ssa.Value, depth int) string {
	switch x := v.(type) {
	case *ssa.Parameter:
		return x.Name()
	case *ssa.FreeVar:
		return "free:" + x.Name()
	case *ssa.Const:
		if x.Value == nil {
			return "nil"
		}
		return x.Value.ExactString()
	case *ssa.Global:
		return strings.ReplaceAll(x.String(), ModulePath+"/", "")
	case *ssa.Function:
		return Short(x)
	case *ssa.Alloc:
		if x.Comment != "" {
			return "local:" + x.Comment
		}
		return "local"
	case *ssa.FieldAddr:
		return prov(x.X, depth+1) + "." + fieldName(x.X.Type(), x.Field)
	case *ssa.Field:
		return prov(x.X, depth+1) + "." + fieldName(x.X.Type(), x.Field)
	case *ssa.UnOp:
		if x.Op == token.MUL {
			return prov(x.X, depth+1)
		}
		return x.Op.String() + prov(x.X, depth+1)
	case *ssa.IndexAddr:
		return prov(x.X, depth+1) + "[" + prov(x.Index, depth+1) + "]"
	case *ssa.Index:
		return prov(x.X, depth+1) + "[" + prov(x.Index, depth+1) + "]"
	case *ssa.Lookup:
		return prov(x.X, depth+1) + "[" + prov(x.Index, depth+1) + "]"
	case *ssa.Extract:
		return prov(x.Tuple, depth+1) + fmt.Sprintf("#%d", x.Index)
	case *ssa.Call:
		var args []string
		for _, a := range x.Call.Args {
			args = append(args, prov(a, depth+1))
		}
		if x.Call.IsInvoke() {
			return prov(x.Call.Value, depth+1) + "." + x.Call.Method.Name() + "(" + strings.Join(args, ", ") + ")"
		}
		return ShortCallee(&x.Call) + "(" + strings.Join(args, ", ") + ")"
	case *ssa.Next:
		return "next(" + prov(x.Iter, depth+1) + ")"
	case *ssa.Range:
		return "range " + prov(x.X, depth+1)
	case *ssa.Slice:
		return prov(x.X, depth+1) + "[:]"
	case *ssa.BinOp:
		return "(" + prov(x.X, depth+1) + " " + x.Op.String() + " " + prov(x.Y, depth+1) + ")"
	case *ssa.Convert:
		return types.TypeString(x.Type(), nil) + "(" + prov(x.X, depth+1) + ")"
	case *ssa.MakeClosure:
		return "closure " + Short(x.Fn.(*ssa.Function))
	case *ssa.MakeMap:
		return "make(map)"
	case *ssa.MakeSlice:
		return "make(slice)"
	case *ssa.MakeChan:
		return "make(chan)"
	case *ssa.TypeAssert:
		return prov(x.X, depth+1) + ".(" + types.TypeString(x.AssertedType, nil) + ")"
	case *ssa.Phi:
		return "phi"
	}
	return fmt.Sprintf("%T", v)
}

// ConstInt returns the integer value of a constant operand.
func ConstInt(v ssa.Value) (int64, bool) {
	for {
		switch x := v.(type) {
		case *ssa.Convert:
			v = x.X
			continue
		case *ssa.ChangeType:
			v = x.X
			continue
		}
		break
	}
	c, ok := v.(*ssa.Const)
	if !ok || c.Value == nil || c.Value.Kind() != constant.Int {
		return 0, false
	}
	i, exact := constant.Int64Val(c.Value)
	return i, exact
}

// ConstString returns the value of a constant string operand.
func ConstString(v ssa.Value) (string, bool) {
	v = Resolve(v)
	c, ok := v.(*ssa.Const)
	if !ok || c.Value == nil || c.Value.Kind() != constant.String {
		return "", false
	}
	return constant.StringVal(c.Value), true
}

// IsNilConst reports whether v is the nil constant.
func IsNilConst(v ssa.Value) bool {
	c, ok := v.(*ssa.Const)
	return ok && c.Value == nil
}

// EachInstr visits every instruction of fn.
func EachInstr(fn *ssa.Function, f func(ssa.Instruction)) {
	for _, b := range fn.Blocks {
		for _, in := range b.Instrs {
			f(in)
		}
	}
}

// CallsIn returns the call instructions of fn (including go/defer) whose
// target matches one of names (see IsCallTo).
func CallsIn(fn *ssa.Function, names ...string) []ssa.CallInstruction {
	var out []ssa.CallInstruction
	EachInstr(fn, func(in ssa.Instruction) {
		if _, ok := IsCallTo(in, names...); ok {
			out = append(out, in.(ssa.CallInstruction))
		}
	})
	return out
}

// WithAnon returns fn and all functions nested in it.
func WithAnon(fn *ssa.Function) []*ssa.Function {
	out := []*ssa.Function{fn}
	for _, a := range fn.AnonFuncs {
		out = append(out, WithAnon(a)...)
	}
	return out
}

// Unwrap maps a synthetic bound-method wrapper or thunk (x.m used as a
// value) to the declared method it forwards to.
func (p *Prog) Unwrap(fn *ssa.Function) *ssa.Function {
	if fn == nil || fn.Synthetic == "" {
		return fn
	}
	if obj, ok := fn.Object().(*types.Func); ok {
		if d := p.SSA.FuncValue(obj); d != nil && d.Synthetic == "" {
			return d
		}
	}
	return fn
}

var soleDynCache = map[*types.Named]types.Type{}
var soleDynDone = map[*types.Named]bool{}

// soleDynamicType returns the one concrete type of the values converted to the module interface iface anywhere in
// the module, or nil when there are several, none, or a conversion from another interface (unknown dynamic type).
func soleDynamicType(p *Prog, iface *types.Named) types.Type {
	if soleDynDone[iface] {
		return soleDynCache[iface]
	}
	soleDynDone[iface] = true
	var found types.Type
	ok := true
	for _, fn := range p.Funcs {
		EachInstr(fn, func(in ssa.Instruction) {
			switch x := in.(type) {
			case *ssa.MakeInterface:
				if !types.Identical(x.Type(), iface) {
					return
				}
				if found != nil && !types.Identical(found, x.X.Type()) {
					ok = false
				}
				found = x.X.Type()
			case *ssa.ChangeInterface:
				if types.Identical(x.Type(), iface) {
					ok = false
				}
			case *ssa.TypeAssert:
				if types.Identical(x.AssertedType, iface) {
					ok = false
				}
			}
		})
	}
	if !ok || found == nil {
		return nil
	}
	soleDynCache[iface] = found
	return found
}

// ---------------------------------------------------------------------------
// method objects

type methodObjInfo struct {
	ok     bool
	stores map[int][]ssa.Value
}

var methodObjCache = map[*types.Named]*methodObjInfo{}

// methodObjectField: fa addresses field f of a value of a method-object type; it returns everything stored into f
// anywhere in the module (flow-insensitive), or nil when the type is not a method object.
//
// A method-object type is an unexported struct type of the module every instance of which is allocated by a
// composite literal in one function (its driver) and used only as the receiver of its own methods and through its
// fields: it is never stored into another object, returned, sent, captured by a goroutine other than through a
// method call, or handed to a function that is not one of its methods. Such an object lives for one call of its
// driver; its fields are that call's locals.
func methodObjectField(fa *ssa.FieldAddr) []ssa.Value {
	p := CurrentProg
	if p == nil {
		return nil
	}
	named, ok := Deref(fa.X.Type()).(*types.Named)
	if !ok || named.Obj().Pkg() == nil || named.Obj().Exported() || !strings.HasPrefix(named.Obj().Pkg().Path(), ModulePath) {
		return nil
	}
	if _, isStruct := named.Underlying().(*types.Struct); !isStruct {
		return nil
	}
	info, seen := methodObjCache[named]
	if !seen {
		info = analyseMethodObject(p, named)
		methodObjCache[named] = info
	}
	if !info.ok {
		return nil
	}
	return info.stores[fa.Field]
}

func analyseMethodObject(p *Prog, named *types.Named) *methodObjInfo {
	info := &methodObjInfo{stores: map[int][]ssa.Value{}}
	isT := func(t types.Type) bool { return Deref(t) == types.Type(named) }
	var driver *ssa.Function
	nAlloc := 0
	ok := true
	isMethodOfT := func(f *ssa.Function) bool {
		return f != nil && f.Signature.Recv() != nil && isT(f.Signature.Recv().Type())
	}
	// uses of a *T value: allowed are field addressing, method calls on it, loads/stores of its fields, nil tests, φ
	var usesOK func(v ssa.Value, depth int) bool
	usesOK = func(v ssa.Value, depth int) bool {
		if v.Referrers() == nil || depth > 6 {
			return depth <= 6
		}
		for _, r := range *v.Referrers() {
			switch x := r.(type) {
			case *ssa.FieldAddr, *ssa.DebugRef, *ssa.BinOp, *ssa.If:
			case *ssa.Phi:
				if !usesOK(x, depth+1) {
					return false
				}
			case *ssa.Store:
				// storing the pointer itself somewhere: only into a local cell of the same function
				if x.Val == v {
					cell, isCell := x.Addr.(*ssa.Alloc)
					if !isCell || !usesOK(cell, depth+1) {
						return false
					}
				}
			case *ssa.UnOp:
				// a load of the cell that holds the pointer
				if x.Op == token.MUL && isT(x.Type()) {
					if _, isPtr := x.Type().(*types.Pointer); isPtr && !usesOK(x, depth+1) {
						return false
					}
				}
			case ssa.CallInstruction:
				cc := x.Common()
				if cc.IsInvoke() {
					return false
				}
				callee := cc.StaticCallee()
				if mc, isMC := cc.Value.(*ssa.MakeClosure); isMC {
					callee, _ = mc.Fn.(*ssa.Function)
				}
				recvOnly := isMethodOfT(callee) && len(cc.Args) > 0 && cc.Args[0] == v
				for i, a := range cc.Args {
					if a == v && !(recvOnly && i == 0) {
						return false
					}
				}
				if !recvOnly {
					// (v may be the function value of a bound method: x.m as a value)
					if cc.Value == v {
						return false
					}
				}
			case *ssa.MakeClosure:
				// a bound method value or a closure capturing the object: the closure must be one of T's methods' thunks
				fn, _ := x.Fn.(*ssa.Function)
				if fn == nil || !(isMethodOfT(p.Unwrap(fn)) || fn.Parent() != nil && isMethodOfT(Outer(fn))) {
					return false
				}
			default:
				return false
			}
		}
		return true
	}
	for _, fn := range p.Funcs {
		if !InModule(fn) || fn.Blocks == nil {
			continue
		}
		EachInstr(fn, func(in ssa.Instruction) {
			switch x := in.(type) {
			case *ssa.Alloc:
				if Deref(x.Type()) == types.Type(named) {
					nAlloc++
					if driver != nil && driver != fn {
						ok = false
					}
					driver = fn
					if !usesOK(x, 0) {
						ok = false
					}
				}
			case *ssa.Store:
				if fa, isFA := x.Addr.(*ssa.FieldAddr); isFA && isT(fa.X.Type()) {
					info.stores[fa.Field] = append(info.stores[fa.Field], x.Val)
				}
			}
		})
		// the receiver inside T's methods obeys the same discipline
		if isMethodOfT(fn) && len(fn.Params) > 0 {
			if !usesOK(fn.Params[0], 0) {
				ok = false
			}
		}
	}
	// globals or fields of that type elsewhere
	for _, pkg := range p.SSA.AllPackages() {
		if pkg.Pkg == nil || !strings.HasPrefix(pkg.Pkg.Path(), ModulePath) {
			continue
		}
		for _, m := range pkg.Members {
			if g, isG := m.(*ssa.Global); isG && isT(Deref(g.Type())) {
				ok = false
			}
		}
	}
	// … and it has phases: at least one method of its own that runs in the module (a plain record type — an entry
	// of a map copied into a local, a pair of lists — is data, not a method object)
	hasMethod := false
	for _, fn := range p.Funcs {
		if isMethodOfT(fn) && fn.Blocks != nil && fn.Synthetic == "" {
			hasMethod = true
		}
	}
	info.ok = ok && hasMethod && nAlloc >= 1 && driver != nil && !isMethodOfT(driver)
	return info
}

// MethodObjectLoads: fa addresses a field of a method object (see methodObjectField); it returns the loads of that
// field anywhere in the module, or nil when the type is not a method object.
func MethodObjectLoads(fa *ssa.FieldAddr) []ssa.Value {
	if methodObjectField(fa) == nil {
		return nil
	}
	named, _ := Deref(fa.X.Type()).(*types.Named)
	var out []ssa.Value
	for _, fn := range CurrentProg.Funcs {
		if !InModule(fn) || fn.Blocks == nil {
			continue
		}
		EachInstr(fn, func(in ssa.Instruction) {
			u, ok := in.(*ssa.UnOp)
			if !ok || u.Op != token.MUL {
				return
			}
			f2, ok := u.X.(*ssa.FieldAddr)
			if ok && f2.Field == fa.Field && Deref(f2.X.Type()) == types.Type(named) {
				out = append(out, u)
			}
		})
	}
	return out
}
