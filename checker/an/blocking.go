package an

import (
	"go/token"
	"go/types"
	"strings"

	"golang.org/x/tools/go/ssa"
)

// BlockOp is an operation that can block the calling goroutine.
type BlockOp struct {
	Instr ssa.Instruction
	Kind  string // recv, send, select, wg.Wait, lock, rlock, cond.Wait, sleep
	On    string // provenance of the channel / group / mutex
	OnVal ssa.Value
}

// BlockingOps lists the potentially blocking operations that appear
// directly in fn (callees are not followed).
func BlockingOps(fn *ssa.Function) []BlockOp {
	var out []BlockOp
	EachInstr(fn, func(in ssa.Instruction) {
		switch x := in.(type) {
		case *ssa.UnOp:
			if x.Op == token.ARROW {
				out = append(out, BlockOp{in, "recv", Prov(x.X), x.X})
			}
		case *ssa.Send:
			out = append(out, BlockOp{in, "send", Prov(x.Chan), x.Chan})
		case *ssa.Select:
			if x.Blocking {
				out = append(out, BlockOp{in, "select", "", nil})
			}
		case ssa.CallInstruction:
			if _, isGo := in.(*ssa.Go); isGo {
				return
			}
			c := x.Common()
			name := ShortCallee(c)
			var recv ssa.Value
			if len(c.Args) > 0 {
				recv = c.Args[0]
			}
			switch name {
			case "(*sync.WaitGroup).Wait":
				out = append(out, BlockOp{in, "wg.Wait", Prov(recv), recv})
			case "(*sync.Mutex).Lock", "(*sync.RWMutex).Lock":
				out = append(out, BlockOp{in, "lock", Prov(recv), recv})
			case "(*sync.RWMutex).RLock":
				out = append(out, BlockOp{in, "rlock", Prov(recv), recv})
			case "(*sync.Cond).Wait":
				out = append(out, BlockOp{in, "cond.Wait", Prov(recv), recv})
			case "time.Sleep":
				out = append(out, BlockOp{in, "sleep", "", nil})
			default:
				if strings.Contains(name, "semaphore.Weighted).Acquire") {
					out = append(out, BlockOp{in, "lock", Prov(recv), recv})
				}
			}
		}
	})
	return out
}

// FieldKey identifies a struct field by owner type and name ("TaskRunner.running"),
// or "" when v is not a field address.
func FieldKey(v ssa.Value) string {
	v = Resolve(v)
	if u, isLoad := v.(*ssa.UnOp); isLoad && u.Op == token.MUL {
		// the value held in a field (a channel, a pointer) is identified by the field too
		v = Resolve(u.X)
	}
	fa, ok := v.(*ssa.FieldAddr)
	if !ok {
		return ""
	}
	t := Deref(fa.X.Type())
	name := t.String()
	if i := strings.LastIndex(name, "."); i >= 0 {
		name = name[i+1:]
	}
	if n, ok := t.(*types.Named); ok {
		name = TypeName(n)
	}
	return name + "." + fieldName(fa.X.Type(), fa.Field)
}

// IsUnlockOf reports whether in releases the mutex locked by op.
func IsUnlockOf(in ssa.Instruction, op BlockOp) bool {
	ci, ok := in.(ssa.CallInstruction)
	if !ok {
		return false
	}
	name := ShortCallee(ci.Common())
	want := map[string][]string{
		"lock":  {"(*sync.Mutex).Unlock", "(*sync.RWMutex).Unlock"},
		"rlock": {"(*sync.RWMutex).RUnlock"},
	}[op.Kind]
	for _, w := range want {
		if name == w && len(ci.Common().Args) > 0 {
			a := ci.Common().Args[0]
			if SameValue(a, op.OnVal) || (FieldKey(a) != "" && FieldKey(a) == FieldKey(op.OnVal) && Prov(a) == op.On) {
				return true
			}
		}
	}
	return false
}
