package an

import (
	"go/token"

	"golang.org/x/tools/go/ssa"
)

// InstrIndex returns the index of in within its block.
func InstrIndex(in ssa.Instruction) int {
	for i, x := range in.Block().Instrs {
		if x == in {
			return i
		}
	}
	return -1
}

// Dominates reports whether instruction a is executed before b on every path
// that reaches b (same function).
func Dominates(a, b ssa.Instruction) bool {
	if a.Parent() != b.Parent() {
		return false
	}
	if a.Block() == b.Block() {
		return InstrIndex(a) < InstrIndex(b)
	}
	return a.Block().Dominates(b.Block())
}

// reach computes the blocks reachable from start without entering any block
// in stop (start itself is always included).
func ReachBlocks(start *ssa.BasicBlock, stop map[*ssa.BasicBlock]bool) map[*ssa.BasicBlock]bool {
	seen := map[*ssa.BasicBlock]bool{start: true}
	work := []*ssa.BasicBlock{start}
	for len(work) > 0 {
		b := work[len(work)-1]
		work = work[:len(work)-1]
		for _, s := range b.Succs {
			if stop[s] || seen[s] {
				continue
			}
			seen[s] = true
			work = append(work, s)
		}
	}
	return seen
}

// CanReach reports whether to is reachable from from (possibly from==to via a cycle when strict).
func CanReach(from, to *ssa.BasicBlock) bool {
	if from == to {
		return true
	}
	return ReachBlocks(from, nil)[to]
}

// Loop is a natural loop.
type Loop struct {
	Header  *ssa.BasicBlock
	Blocks  map[*ssa.BasicBlock]bool
	Latches []*ssa.BasicBlock
}

// Loops finds the natural loops of fn (one per header; loops sharing a
// header are merged).
func Loops(fn *ssa.Function) []*Loop {
	byHeader := map[*ssa.BasicBlock]*Loop{}
	var order []*ssa.BasicBlock
	for _, b := range fn.Blocks {
		for _, s := range b.Succs {
			if s.Dominates(b) { // back edge b→s
				l := byHeader[s]
				if l == nil {
					l = &Loop{Header: s, Blocks: map[*ssa.BasicBlock]bool{s: true}}
					byHeader[s] = l
					order = append(order, s)
				}
				l.Latches = append(l.Latches, b)
				// blocks that reach b without passing s
				work := []*ssa.BasicBlock{b}
				for len(work) > 0 {
					x := work[len(work)-1]
					work = work[:len(work)-1]
					if l.Blocks[x] {
						continue
					}
					l.Blocks[x] = true
					work = append(work, x.Preds...)
				}
			}
		}
	}
	var out []*Loop
	for _, h := range order {
		out = append(out, byHeader[h])
	}
	return out
}

// InLoop returns the innermost loop containing b, or nil.
func InnermostLoop(loops []*Loop, b *ssa.BasicBlock) *Loop {
	var best *Loop
	for _, l := range loops {
		if l.Blocks[b] && (best == nil || len(l.Blocks) < len(best.Blocks)) {
			best = l
		}
	}
	return best
}

// Exits returns the blocks outside the loop that are entered from inside.
func (l *Loop) Exits() []*ssa.BasicBlock {
	seen := map[*ssa.BasicBlock]bool{}
	var out []*ssa.BasicBlock
	for b := range l.Blocks {
		for _, s := range b.Succs {
			if !l.Blocks[s] && !seen[s] {
				seen[s] = true
				out = append(out, s)
			}
		}
	}
	return out
}

// RangeOperand returns, for a loop produced by `for … := range x`, the ranged
// value x (slice/array/string loops and map/channel loops), else nil.
func (l *Loop) RangeOperand() ssa.Value {
	h := l.Header
	// map / string iteration: header contains Next(Range(x))
	for _, in := range h.Instrs {
		if nx, ok := in.(*ssa.Next); ok {
			if r, ok := nx.Iter.(*ssa.Range); ok {
				return r.X
			}
		}
	}
	// slice iteration: header has `i < len(x)` as its branch condition
	if iff, ok := h.Instrs[len(h.Instrs)-1].(*ssa.If); ok {
		if bo, ok := iff.Cond.(*ssa.BinOp); ok && bo.Op == token.LSS {
			if c, ok := bo.Y.(*ssa.Call); ok {
				if b, ok := c.Call.Value.(*ssa.Builtin); ok && b.Name() == "len" {
					return c.Call.Args[0]
				}
			}
		}
	}
	return nil
}

// VisitsEveryElement reports whether the loop, as far as its header shows, goes over all of its operand: a range
// over a map, string or channel (Next), or a slice loop whose index starts at the first element and is stepped
// by one (`for i := 0; i < len(x); i++`, or go/ssa's own lowering of `range x`, which starts at -1 and
// increments before the test). A loop that starts at a remembered position does not.
func (l *Loop) VisitsEveryElement() bool {
	h := l.Header
	for _, in := range h.Instrs {
		if _, ok := in.(*ssa.Next); ok {
			return true
		}
	}
	iff, ok := h.Instrs[len(h.Instrs)-1].(*ssa.If)
	if !ok {
		return false
	}
	bo, ok := iff.Cond.(*ssa.BinOp)
	if !ok || bo.Op != token.LSS {
		return false
	}
	isInt := func(v ssa.Value, k int64) bool {
		c, ok := v.(*ssa.Const)
		return ok && c.Value != nil && c.Int64() == k
	}
	stepOf := func(v ssa.Value, phi *ssa.Phi) bool {
		add, ok := v.(*ssa.BinOp)
		return ok && add.Op == token.ADD && add.X == ssa.Value(phi) && isInt(add.Y, 1)
	}
	check := func(phi *ssa.Phi, start int64, idx ssa.Value) bool {
		if phi.Block() != h {
			return false
		}
		for i, pred := range h.Preds {
			e := phi.Edges[i]
			if l.Blocks[pred] {
				if !stepOf(e, phi) {
					return false
				}
			} else if !isInt(e, start) {
				return false
			}
		}
		return true
	}
	switch x := bo.X.(type) {
	case *ssa.Phi:
		return check(x, 0, x)
	case *ssa.BinOp:
		if phi, ok := x.X.(*ssa.Phi); ok && stepOf(x, phi) {
			return check(phi, -1, x)
		}
	}
	return false
}

// BodyEntry returns the successor of the header that lies inside the loop
// (the first block of one iteration after the loop test).
func (l *Loop) BodyEntry() *ssa.BasicBlock {
	for _, s := range l.Header.Succs {
		if l.Blocks[s] && s != l.Header {
			return s
		}
	}
	if len(l.Header.Succs) > 0 && l.Blocks[l.Header.Succs[0]] {
		return l.Header.Succs[0]
	}
	return nil
}

// RangeElem returns the values denoting the element (slice: the loaded
// element / map: the value) and key/index of the current iteration.
func (l *Loop) RangeKeyValue() (key, val []ssa.Value) {
	h := l.Header
	for _, in := range h.Instrs {
		if nx, ok := in.(*ssa.Next); ok {
			if refs := nx.Referrers(); refs != nil {
				for _, r := range *refs {
					if ex, ok := r.(*ssa.Extract); ok {
						switch ex.Index {
						case 1:
							key = append(key, ex)
						case 2:
							val = append(val, ex)
						}
					}
				}
			}
			return
		}
	}
	op := l.RangeOperand()
	if op == nil {
		return
	}
	for b := range l.Blocks {
		for _, in := range b.Instrs {
			if ia, ok := in.(*ssa.IndexAddr); ok && (ia.X == op || sameLoadedField(ia.X, op)) {
				key = append(key, ia.Index)
				if refs := ia.Referrers(); refs != nil {
					for _, r := range *refs {
						if u, ok := r.(*ssa.UnOp); ok && u.Op == token.MUL {
							val = append(val, u)
						}
					}
				}
			}
			if ix, ok := in.(*ssa.Index); ok && (ix.X == op || sameLoadedField(ix.X, op)) {
				key = append(key, ix.Index)
				val = append(val, ix)
			}
		}
	}
	return
}

// ---------------------------------------------------------------------------
// branch guards

// Branch describes a two-way branch.
type Branch struct {
	If    *ssa.If
	True  *ssa.BasicBlock
	False *ssa.BasicBlock
}

// BranchOf returns the conditional branch ending b, if any.
func BranchOf(b *ssa.BasicBlock) (Branch, bool) {
	if len(b.Instrs) == 0 {
		return Branch{}, false
	}
	iff, ok := b.Instrs[len(b.Instrs)-1].(*ssa.If)
	if !ok {
		return Branch{}, false
	}
	return Branch{iff, b.Succs[0], b.Succs[1]}, true
}

// EdgeDominates reports whether every path to target goes through the edge
// from→succ (succ being a successor of from).
func EdgeDominates(from, succ, target *ssa.BasicBlock) bool {
	if !succ.Dominates(target) {
		return false
	}
	// succ must be entered only through this edge, apart from back edges
	for _, p := range succ.Preds {
		if p == from {
			continue
		}
		if !succ.Dominates(p) {
			return false
		}
	}
	return true
}

// Guards enumerates the (condition, outcome) pairs that hold on every path
// reaching block b: each dominating If whose taken edge dominates b.
func Guards(b *ssa.BasicBlock) []Guard {
	var out []Guard
	fn := b.Parent()
	for _, x := range fn.Blocks {
		br, ok := BranchOf(x)
		if !ok || !x.Dominates(b) {
			continue
		}
		if br.True != br.False {
			if EdgeDominates(x, br.True, b) {
				out = append(out, Guard{br.If.Cond, true, x})
			} else if EdgeDominates(x, br.False, b) {
				out = append(out, Guard{br.If.Cond, false, x})
			}
		}
	}
	return out
}

// Guard is a branch condition with the outcome under which a block runs.
type Guard struct {
	Cond    ssa.Value
	Outcome bool
	Block   *ssa.BasicBlock
}

// NilTest decomposes `x == nil` / `x != nil`; eq tells which.
func NilTest(cond ssa.Value) (x ssa.Value, eq bool, ok bool) {
	bo, isb := cond.(*ssa.BinOp)
	if !isb || (bo.Op != token.EQL && bo.Op != token.NEQ) {
		return nil, false, false
	}
	if IsNilConst(bo.Y) {
		return bo.X, bo.Op == token.EQL, true
	}
	if IsNilConst(bo.X) {
		return bo.Y, bo.Op == token.EQL, true
	}
	return nil, false, false
}

// ---------------------------------------------------------------------------
// post-dominance

// PostDom holds post-dominator sets of one function; the virtual exit is
// every block without successors (return and panic).
type PostDom struct {
	fn   *ssa.Function
	sets []map[int]bool
}

// NewPostDom computes post-dominators by the iterative set algorithm
// (functions here have at most a few dozen blocks).
func NewPostDom(fn *ssa.Function) *PostDom {
	n := len(fn.Blocks)
	pd := &PostDom{fn: fn, sets: make([]map[int]bool, n)}
	all := func() map[int]bool {
		m := map[int]bool{}
		for i := 0; i < n; i++ {
			m[i] = true
		}
		return m
	}
	for i, b := range fn.Blocks {
		if len(b.Succs) == 0 {
			pd.sets[i] = map[int]bool{i: true}
		} else {
			pd.sets[i] = all()
		}
	}
	changed := true
	for changed {
		changed = false
		for i := n - 1; i >= 0; i-- {
			b := fn.Blocks[i]
			if len(b.Succs) == 0 {
				continue
			}
			var inter map[int]bool
			for _, s := range b.Succs {
				ss := pd.sets[s.Index]
				if inter == nil {
					inter = map[int]bool{}
					for k := range ss {
						inter[k] = true
					}
				} else {
					for k := range inter {
						if !ss[k] {
							delete(inter, k)
						}
					}
				}
			}
			inter[i] = true
			if len(inter) != len(pd.sets[i]) {
				pd.sets[i] = inter
				changed = true
			}
		}
	}
	return pd
}

// PostDominates reports whether every path from b to an exit passes a.
func (pd *PostDom) PostDominates(a, b *ssa.BasicBlock) bool {
	return pd.sets[b.Index][a.Index]
}

// InstrPostDominates reports whether every path from just after b to an exit
// executes a.
func (pd *PostDom) InstrPostDominates(a, b ssa.Instruction) bool {
	if a.Block() == b.Block() {
		return InstrIndex(a) > InstrIndex(b)
	}
	return pd.PostDominates(a.Block(), b.Block())
}

// OnAllPathsBetween reports whether every path from instruction `from` to a
// function exit, that does not first pass an instruction in `unless`, passes
// an instruction satisfying pred. It returns a witness block when not.
func OnAllPathsToExit(from ssa.Instruction, pred func(ssa.Instruction) bool, exitOK func(*ssa.BasicBlock) bool) (bool, *ssa.BasicBlock) {
	type item struct {
		b   *ssa.BasicBlock
		idx int
	}
	seen := map[*ssa.BasicBlock]bool{}
	work := []item{{from.Block(), InstrIndex(from) + 1}}
	for len(work) > 0 {
		it := work[len(work)-1]
		work = work[:len(work)-1]
		hit := false
		for i := it.idx; i < len(it.b.Instrs); i++ {
			if pred(it.b.Instrs[i]) {
				hit = true
				break
			}
		}
		if hit {
			continue
		}
		if len(it.b.Succs) == 0 {
			if exitOK != nil && exitOK(it.b) {
				continue
			}
			return false, it.b
		}
		for _, s := range it.b.Succs {
			if !seen[s] {
				seen[s] = true
				work = append(work, item{s, 0})
			}
		}
	}
	return true, nil
}

// IsPanicExit reports whether block b ends in a panic.
func IsPanicExit(b *ssa.BasicBlock) bool {
	if len(b.Instrs) == 0 {
		return false
	}
	_, ok := b.Instrs[len(b.Instrs)-1].(*ssa.Panic)
	return ok
}

// Returns lists the Return instructions of fn.
func Returns(fn *ssa.Function) []*ssa.Return {
	var out []*ssa.Return
	for _, b := range fn.Blocks {
		if len(b.Instrs) == 0 || b == fn.Recover {
			// the synthetic recover block returns the named results after a
			// recovered panic; it is not a source-level exit
			continue
		}
		if r, ok := b.Instrs[len(b.Instrs)-1].(*ssa.Return); ok {
			out = append(out, r)
		}
	}
	return out
}

// NormalExit returns the successor of the header that leaves the loop (the
// exit taken when the loop condition fails / the range is exhausted).
func (l *Loop) NormalExit() *ssa.BasicBlock {
	for _, s := range l.Header.Succs {
		if !l.Blocks[s] {
			return s
		}
	}
	return nil
}

// StopSet is the header plus the normal exit: exploring one iteration of
// the loop body stops there, while break and return paths are followed to
// the end of the function.
func (l *Loop) StopSet() map[*ssa.BasicBlock]bool {
	m := map[*ssa.BasicBlock]bool{l.Header: true}
	if x := l.NormalExit(); x != nil {
		m[x] = true
	}
	return m
}

// Bound configures ex to explore one iteration of the loop: paths stop at the
// header and at the normal exit when it is entered from the header.
func (l *Loop) Bound(ex *Explorer) {
	ex.Stop = l.StopSet()
	ex.StopPred = map[*ssa.BasicBlock]*ssa.BasicBlock{}
	if x := l.NormalExit(); x != nil {
		ex.StopPred[x] = l.Header
	}
}

// RetVal returns the value returned as result i at this return site. In a
// function with defers go/ssa spills results into cells (`*res = x;
// rundefers; return *res`); the value stored in the return's own block is
// the one this site returns.
func RetVal(ret *ssa.Return, i int) ssa.Value {
	v := ret.Results[i]
	u, ok := v.(*ssa.UnOp)
	if !ok || u.Op != token.MUL {
		return v
	}
	cell, ok := u.X.(*ssa.Alloc)
	if !ok {
		return v
	}
	b := ret.Block()
	for k := len(b.Instrs) - 1; k >= 0; k-- {
		if st, ok := b.Instrs[k].(*ssa.Store); ok && st.Addr == cell {
			return st.Val
		}
	}
	return v
}

// sameLoadedField reports whether a and b are two loads of the same field of
// the same object (a loop that re-reads xs in `i < len(o.xs)` and `o.xs[i]`).
func sameLoadedField(a, b ssa.Value) bool {
	ua, ok1 := a.(*ssa.UnOp)
	ub, ok2 := b.(*ssa.UnOp)
	if !ok1 || !ok2 || ua.Op != token.MUL || ub.Op != token.MUL {
		return false
	}
	fa, ok1 := ua.X.(*ssa.FieldAddr)
	fb, ok2 := ub.X.(*ssa.FieldAddr)
	if !ok1 || !ok2 || fa.Field != fb.Field {
		return false
	}
	return SameValue(fa.X, fb.X)
}

// DominatedBySet reports whether every path from the function's entry to
// target passes through at least one instruction of set (collective
// dominance: alternatives in different branches count together).
func DominatedBySet(set []ssa.Instruction, target ssa.Instruction) bool {
	fn := target.Parent()
	if fn == nil || len(fn.Blocks) == 0 {
		return false
	}
	// first index of a set member per block
	cut := map[*ssa.BasicBlock]int{}
	for _, s := range set {
		if s.Parent() != fn {
			continue
		}
		i := InstrIndex(s)
		if j, ok := cut[s.Block()]; !ok || i < j {
			cut[s.Block()] = i
		}
	}
	tb, ti := target.Block(), InstrIndex(target)
	seen := map[*ssa.BasicBlock]bool{}
	var reach func(b *ssa.BasicBlock) bool // target reachable from the start of b without passing a cut
	reach = func(b *ssa.BasicBlock) bool {
		if seen[b] {
			return false
		}
		seen[b] = true
		ci, hasCut := cut[b]
		if b == tb && (!hasCut || ci > ti) {
			return true
		}
		if hasCut {
			return false
		}
		for _, s := range b.Succs {
			if reach(s) {
				return true
			}
		}
		return false
	}
	return !reach(fn.Blocks[0])
}

// SameObject reports whether a and b denote the same value: the same SSA
// value, or two loads of the same field of the same object.
func SameObject(a, b ssa.Value) bool {
	if SameValue(a, b) {
		return true
	}
	ra, rb := ResolveAll(a), ResolveAll(b)
	if len(ra) == 1 && len(rb) == 1 {
		return sameLoadedField(ra[0], rb[0])
	}
	return false
}

// InLoop reports whether block b lies in a natural loop of its function.
func InLoop(b *ssa.BasicBlock) bool {
	for _, l := range Loops(b.Parent()) {
		if l.Blocks[b] {
			return true
		}
	}
	return false
}
