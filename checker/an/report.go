package an

import (
	"bufio"
	"encoding/json"
	"fmt"
	"go/token"
	"os"
	"path/filepath"
	"sort"
	"strings"
	"time"
)

// Status of one obligation.
type Status string

const (
	StOK           Status = "ok"
	StViolated     Status = "violated"
	StUndischarged Status = "undischarged"
	StObservation  Status = "observation"
	StKnown        Status = "known-finding"
)

// Ob is one obligation: a rule applied to a construct.
type Ob struct {
	Rule      string `json:"rule"`
	Construct string `json:"construct"` // stable key: function + callee/field, never a line number
	Pos       string `json:"pos"`
	Status    Status `json:"status"`
	Detail    string `json:"detail"`
}

// Ctx collects the obligations of one property check.
type Ctx struct {
	Prop string
	P    *Prog
	Obs  []Ob
	// free-form evidence
	Anchors    map[string]string
	Tables     map[string]interface{}
	Sites      map[string][]string
	Summaries  []string // trusted library summaries used
	NotDecided []string
	Explain    []string // rule descriptions
}

func NewCtx(prop string, p *Prog) *Ctx {
	return &Ctx{Prop: prop, P: p, Anchors: map[string]string{}, Tables: map[string]interface{}{}, Sites: map[string][]string{}}
}

func (c *Ctx) add(st Status, rule, construct string, pos token.Pos, format string, args ...interface{}) {
	c.Obs = append(c.Obs, Ob{Rule: rule, Construct: construct, Pos: c.P.Pos(pos), Status: st, Detail: fmt.Sprintf(format, args...)})
}

// OK records a discharged obligation.
func (c *Ctx) OK(rule, construct string, pos token.Pos, format string, args ...interface{}) {
	c.add(StOK, rule, construct, pos, format, args...)
}

// Bad records a violated obligation.
func (c *Ctx) Bad(rule, construct string, pos token.Pos, format string, args ...interface{}) {
	c.add(StViolated, rule, construct, pos, format, args...)
}

// Und records an obligation the analysis could not decide.
func (c *Ctx) Und(rule, construct string, pos token.Pos, format string, args ...interface{}) {
	c.add(StUndischarged, rule, construct, pos, format, args...)
}

// Note records an observation that is not part of a claimed clause.
func (c *Ctx) Note(rule, construct string, pos token.Pos, format string, args ...interface{}) {
	c.add(StObservation, rule, construct, pos, format, args...)
}

// Check records ok or violated depending on cond.
func (c *Ctx) Check(cond bool, rule, construct string, pos token.Pos, okMsg, badMsg string) bool {
	if cond {
		c.OK(rule, construct, pos, "%s", okMsg)
	} else {
		c.Bad(rule, construct, pos, "%s", badMsg)
	}
	return cond
}

// Rule documents a rule in the evidence.
func (c *Ctx) Rule(id, text string) { c.Explain = append(c.Explain, id+": "+text) }

// Anchor records how a role was resolved.
func (c *Ctx) Anchor(role, resolved string) { c.Anchors[role] = resolved }

// Site records one analysed site of a who-may rule.
func (c *Ctx) Site(rule, s string) { c.Sites[rule] = append(c.Sites[rule], s) }

// ---------------------------------------------------------------------------
// known findings

type knownFinding struct{ prop, rule, construct, text string }

func loadKnown(path string) ([]knownFinding, error) {
	f, err := os.Open(path)
	if err != nil {
		if os.IsNotExist(err) {
			return nil, nil
		}
		return nil, err
	}
	defer f.Close()
	var out []knownFinding
	sc := bufio.NewScanner(f)
	for sc.Scan() {
		line := strings.TrimSpace(sc.Text())
		if !strings.HasPrefix(line, "finding:") {
			continue // comments and "fixed:" lines suppress nothing
		}
		k := knownFinding{}
		rest := strings.Fields(strings.TrimPrefix(line, "finding:"))
		var text []string
		for _, w := range rest {
			switch {
			case strings.HasPrefix(w, "property=") && k.prop == "":
				k.prop = strings.TrimPrefix(w, "property=")
			case strings.HasPrefix(w, "rule=") && k.rule == "":
				k.rule = strings.TrimPrefix(w, "rule=")
			case strings.HasPrefix(w, "construct=") && k.construct == "":
				k.construct = strings.TrimPrefix(w, "construct=")
			default:
				text = append(text, w)
			}
		}
		k.text = strings.Join(text, " ")
		out = append(out, k)
	}
	return out, sc.Err()
}

// ---------------------------------------------------------------------------
// finishing a run

// Finish prints the report, writes evidence and replay files, and returns the
// process exit status (0 held, 1 violation).
func (c *Ctx) Finish(verifDir, tier string, seed int64, t0 time.Time, extra map[string]interface{}) int {
	known, err := loadKnown(filepath.Join(verifDir, "known_findings.txt"))
	if err != nil {
		fmt.Printf("INFRA: cannot read known findings: %v\n", err)
		return 2
	}
	for i := range c.Obs {
		o := &c.Obs[i]
		if o.Status != StViolated {
			continue
		}
		for _, k := range known {
			if k.prop == c.Prop && k.rule == o.Rule && k.construct == o.Construct {
				o.Status = StKnown
				break
			}
		}
	}
	sort.SliceStable(c.Obs, func(i, j int) bool {
		if c.Obs[i].Rule != c.Obs[j].Rule {
			return ruleLess(c.Obs[i].Rule, c.Obs[j].Rule)
		}
		return c.Obs[i].Construct < c.Obs[j].Construct
	})
	var nOK, nBad, nUnd, nKnown, nNote int
	var bad []Ob
	for _, o := range c.Obs {
		switch o.Status {
		case StOK:
			nOK++
		case StViolated:
			nBad++
			bad = append(bad, o)
		case StUndischarged:
			nUnd++
			bad = append(bad, o)
		case StKnown:
			nKnown++
		case StObservation:
			nNote++
		}
	}
	fmt.Printf("taskverif property=%s tier=%s root=%s packages=%d functions=%d\n", c.Prop, tier, c.P.Root, len(c.P.Pkgs), len(c.P.Funcs))
	for _, o := range c.Obs {
		switch o.Status {
		case StKnown:
			fmt.Printf("KNOWN-FINDING: property=%s rule=%s construct=%s %s (%s)\n", c.Prop, o.Rule, o.Construct, o.Detail, o.Pos)
		default:
			fmt.Printf("  %-13s %-8s %-60s %s  %s\n", o.Status, o.Rule, o.Construct, o.Pos, o.Detail)
		}
	}
	obligations := nOK + nBad + nUnd + nKnown
	if obligations == 0 {
		fmt.Printf("INFRA: property %s produced no obligation at all\n", c.Prop)
		return 2
	}

	replay := filepath.Join(verifDir, "evidence", c.Prop+".violation.txt")
	os.Remove(replay)
	status := 0
	if len(bad) > 0 {
		status = 1
		var sb strings.Builder
		fmt.Fprintf(&sb, "property %s: %d violated, %d undischarged obligation(s) on %s\n", c.Prop, nBad, nUnd, c.P.Root)
		fmt.Fprintf(&sb, "reproduce: cd /verif && bin/taskverif -prop %s -tier %s -root %s\n\n", c.Prop, tier, c.P.Root)
		for _, o := range bad {
			fmt.Fprintf(&sb, "kind=%s rule=%s construct=%s at %s\n    %s\n", o.Status, o.Rule, o.Construct, o.Pos, o.Detail)
		}
		os.MkdirAll(filepath.Dir(replay), 0o755)
		os.WriteFile(replay, []byte(sb.String()), 0o644)
	}

	// evidence
	samples := []interface{}{}
	for i, o := range c.Obs {
		if o.Status == StOK && len(samples) < 6 && i%3 == 0 {
			samples = append(samples, o)
		}
	}
	for _, o := range bad {
		if len(samples) < 12 {
			samples = append(samples, o)
		}
	}
	if len(samples) == 0 && len(c.Obs) > 0 {
		samples = append(samples, c.Obs[0])
	}
	distinct := map[string]bool{}
	for _, o := range c.Obs {
		if o.Status != StObservation {
			distinct[o.Rule+"|"+o.Construct] = true
		}
	}
	cov := map[string]interface{}{
		"explanation": "Static analysis of the type-checked source and SSA form of " + c.P.Root +
			" (nothing is executed). Rules applied: " + strings.Join(c.Explain, " || "),
		"obligations":         obligations,
		"discharged":          nOK,
		"violated":            nBad,
		"undischarged":        nUnd,
		"known_findings":      nKnown,
		"observations":        nNote,
		"evaluations":         obligations,
		"distinct_nontrivial": len(distinct),
		"rule": "one obligation per (rule, construct): a rule of DESIGN.md §5 applied to a function, call site, table row or field resolved in the current tree; " +
			"distinct = distinct (rule, construct) keys",
		"samples":             samples,
		"all_obligations":     c.Obs,
		"packages":            len(c.P.Pkgs),
		"functions_analysed":  len(c.P.Funcs),
		"anchors":             c.Anchors,
		"tables":              c.Tables,
		"sites":               c.Sites,
		"library_summaries":   c.Summaries,
		"undecided_remainder": c.NotDecided,
		"checker_cmd":         fmt.Sprintf("bin/taskverif -prop %s -tier %s", c.Prop, tier),
		"trusted_base":        []string{"go/types and go/ssa of golang.org/x/tools v0.29.0", "the library summaries listed under library_summaries"},
		"exhaustive":          false,
	}
	for k, v := range extra {
		cov[k] = v
	}
	ev := map[string]interface{}{
		"property_id": c.Prop,
		"tier":        tier,
		"seed":        seed,
		"level":       "other",
		"coverage":    cov,
		"assumptions": append([]string{
			"the analysed program is the set of non-test packages of " + c.P.Root + " under the default build configuration (thorough tier adds further configurations)",
			"go/types, go/ssa resolve callees and values correctly; reflection-based libraries are covered only by the stated summaries",
			"this check decides the structural clauses listed in coverage.explanation, not the quantified behaviour itself (see undecided_remainder)",
		}, c.Summaries...),
		"wall_s":     time.Since(t0).Seconds(),
		"violations": nBad + nUnd,
	}
	os.MkdirAll(filepath.Join(verifDir, "evidence"), 0o755)
	data, _ := json.MarshalIndent(ev, "", " ")
	if err := os.WriteFile(filepath.Join(verifDir, "evidence", c.Prop+".json"), data, 0o644); err != nil {
		fmt.Printf("INFRA: cannot write evidence: %v\n", err)
		return 2
	}
	fmt.Printf("summary property=%s obligations=%d ok=%d violated=%d undischarged=%d known=%d observations=%d wall=%.1fs\n",
		c.Prop, obligations, nOK, nBad, nUnd, nKnown, nNote, time.Since(t0).Seconds())
	if status == 1 {
		fmt.Printf("VIOLATION property=%s replay=%s\n", c.Prop, replay)
	}
	return status
}

func ruleLess(a, b string) bool {
	pa, pb := strings.Split(a, "."), strings.Split(b, ".")
	for i := 0; i < len(pa) && i < len(pb); i++ {
		if pa[i] != pb[i] {
			var x, y int
			if _, e1 := fmt.Sscanf(pa[i], "%d", &x); e1 == nil {
				if _, e2 := fmt.Sscanf(pb[i], "%d", &y); e2 == nil {
					return x < y
				}
			}
			return pa[i] < pb[i]
		}
	}
	return len(pa) < len(pb)
}
