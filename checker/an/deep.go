package an

import (
	"go/token"
	"go/types"

	"golang.org/x/tools/go/ssa"
)

// DeepSources is Sources that also looks into the module functions a value
// comes from: a call result is replaced by what the callee returns (with the
// callee's parameters mapped back to the arguments of that call), and — when
// throughCallers is set — a parameter of the starting function by the
// arguments at its module call sites. Depth-bounded; recursion is cut.
func (p *Prog) DeepSources(v ssa.Value, depth int, throughCallers bool) []ssa.Value {
	return p.DeepSourcesStop(v, depth, throughCallers, nil)
}

// DeepSourcesStop is DeepSources that does not expand values for which stop
// returns true (they are reported as sources themselves).
func (p *Prog) DeepSourcesStop(v ssa.Value, depth int, throughCallers bool, stop func(ssa.Value) bool) []ssa.Value {
	type frame struct {
		site   ssa.CallInstruction
		callee *ssa.Function
		parent *frame
	}
	calleeOnStack := func(fn *ssa.Function, fr *frame) bool {
		for f := fr; f != nil; f = f.parent {
			if f.callee == fn {
				return true
			}
		}
		return false
	}
	var out []ssa.Value
	seen := map[ssa.Value]bool{}
	type sinkFn func(v ssa.Value, fr *frame, depth int) bool // true: handled, do not report v itself
	var sink sinkFn
	var walk func(v ssa.Value, fr *frame, depth int)
	// fieldOf reports (and walks) what field idx of the struct value sv denotes, when sv is a copy of a
	// literal built in the module
	fieldOf := func(sv ssa.Value, idx int, fr *frame, depth int) bool {
		forwarded := false
		sink = func(lv ssa.Value, sfr *frame, sd int) bool {
			u, ok := lv.(*ssa.UnOp)
			if !ok || u.Op != token.MUL {
				return true
			}
			a, ok := u.X.(*ssa.Alloc)
			if !ok || a.Referrers() == nil {
				return true
			}
			var vals []ssa.Value
			for _, r := range *a.Referrers() {
				fa, ok := r.(*ssa.FieldAddr)
				if !ok || fa.Field != idx || fa.Referrers() == nil {
					continue
				}
				for _, rr := range *fa.Referrers() {
					if st, ok := rr.(*ssa.Store); ok && st.Addr == ssa.Value(fa) {
						vals = append(vals, st.Val)
					}
				}
			}
			if len(vals) == 0 {
				return true
			}
			forwarded = true
			saved := sink
			sink = nil
			for _, val := range vals {
				walk(val, sfr, sd)
			}
			sink = saved
			return true
		}
		walk(sv, fr, depth-1)
		sink = nil
		return forwarded
	}
	walk = func(v ssa.Value, fr *frame, depth int) {
		for _, src := range Sources(v) {
			key := src
			if seen[key] && fr == nil {
				continue
			}
			if stop != nil && stop(src) {
				if !seen[key] {
					seen[key] = true
					out = append(out, src)
				}
				continue
			}
			switch x := src.(type) {
			case *ssa.Parameter:
				if fr != nil && x.Parent() == fr.callee {
					idx := -1
					for i, q := range fr.callee.Params {
						if q == x {
							idx = i
						}
					}
					c := fr.site.Common()
					ai := idx
					if c.IsInvoke() {
						ai--
						if idx == 0 {
							walk(c.Value, fr.parent, depth)
							continue
						}
					}
					if ai >= 0 && ai < len(c.Args) {
						walk(c.Args[ai], fr.parent, depth)
						continue
					}
				}
				if fr == nil && throughCallers && depth > 0 {
					fn := x.Parent()
					idx := -1
					for i, q := range fn.Params {
						if q == x {
							idx = i
						}
					}
					sites := p.CallSitesOf(fn)
					found := false
					for _, site := range sites {
						c := site.Common()
						ai := idx
						if c.IsInvoke() {
							ai--
						}
						if ai >= 0 && ai < len(c.Args) {
							found = true
							walk(c.Args[ai], nil, depth-1)
						}
					}
					if found {
						continue
					}
				}
			case *ssa.Field:
				// a field of a struct value: when the value is (a copy of) a literal built in the module,
				// the field denotes what was stored into it
				if depth > 0 && sink == nil && fieldOf(x.X, x.Field, fr, depth) {
					continue
				}
			case *ssa.UnOp:
				// a field of an object built by the module and handed on by pointer (a builder, a parameter
				// bundle): when the object is a literal whose field is assigned exactly once, where it is
				// built, the load denotes that value
				if fa, ok := x.X.(*ssa.FieldAddr); ok && x.Op == token.MUL && depth > 0 && sink == nil {
					if _, direct := fa.X.(*ssa.Alloc); !direct {
						var bases []ssa.Value
						sink = func(lv ssa.Value, sfr *frame, sd int) bool {
							bases = append(bases, lv)
							return true
						}
						walk(fa.X, fr, depth-1)
						sink = nil
						var stored []ssa.Value
						okAll := len(bases) > 0
						for _, b := range bases {
							a, isAlloc := b.(*ssa.Alloc)
							if !isAlloc || a.Referrers() == nil {
								okAll = false
								break
							}
							n := 0
							for _, r := range *a.Referrers() {
								if f2, ok := r.(*ssa.FieldAddr); ok && f2.Field == fa.Field && f2.Referrers() != nil {
									for _, rr := range *f2.Referrers() {
										if st, ok := rr.(*ssa.Store); ok && st.Addr == ssa.Value(f2) {
											stored = append(stored, st.Val)
											n++
										}
									}
								}
							}
							if n != 1 {
								okAll = false
							}
						}
						// nobody else writes that field of that type
						if okAll {
							key := TypeField(fa)
							total := 0
							for _, fn := range p.Funcs {
								EachInstr(fn, func(in ssa.Instruction) {
									if st, ok := in.(*ssa.Store); ok {
										if f3, ok := st.Addr.(*ssa.FieldAddr); ok && TypeField(f3) == key {
											total++
										}
									}
								})
							}
							if total != len(stored) {
								okAll = false
							}
						}
						if okAll {
							for _, sv := range stored {
								walk(sv, nil, depth-1)
							}
							continue
						}
					}
				}
				// the same for a struct value spilled into a local (value receivers, parameters whose
				// address is taken): *(&local.f) where local was assigned a whole struct value
				if fa, ok := x.X.(*ssa.FieldAddr); ok && x.Op == token.MUL && depth > 0 && sink == nil {
					if a, ok := fa.X.(*ssa.Alloc); ok && a.Referrers() != nil {
						var whole []ssa.Value
						partial := false
						for _, r := range *a.Referrers() {
							switch y := r.(type) {
							case *ssa.Store:
								if y.Addr == ssa.Value(a) {
									whole = append(whole, y.Val)
								}
							case *ssa.FieldAddr:
								if y.Field == fa.Field && y.Referrers() != nil {
									for _, rr := range *y.Referrers() {
										if st, ok := rr.(*ssa.Store); ok && st.Addr == ssa.Value(y) {
											partial = true
										}
									}
								}
							}
						}
						if len(whole) == 1 && !partial && fieldOf(whole[0], fa.Field, fr, depth) {
							continue
						}
					}
				}
			case *ssa.Extract:
				if call, ok := x.Tuple.(*ssa.Call); ok && depth > 0 {
					if callee := singleModuleCallee(p, call); callee != nil && !calleeOnStack(callee, fr) {
						for _, ret := range Returns(callee) {
							if x.Index < len(ret.Results) {
								walk(RetVal(ret, x.Index), &frame{call, callee, fr}, depth-1)
							}
						}
						continue
					}
				}
			case *ssa.Call:
				if arg, ok := CopyHelperArg(x); ok {
					walk(arg, fr, depth)
					continue
				}
				if depth > 0 {
					if callee := singleModuleCallee(p, x); callee != nil && !calleeOnStack(callee, fr) && callee.Signature.Results().Len() == 1 {
						for _, ret := range Returns(callee) {
							walk(RetVal(ret, 0), &frame{x, callee, fr}, depth-1)
						}
						continue
					}
					// a method of an interface of the module with a handful of implementations in the caller's
					// package (a strategy object): what any of them returns
					if x.Call.IsInvoke() && x.Call.Method.Type().(*types.Signature).Results().Len() == 1 {
						impls := p.Callees(&x.Call)
						okAll := len(impls) > 0 && len(impls) <= 4
						for _, im := range impls {
							if im.Blocks == nil || im.Pkg != x.Parent().Pkg || calleeOnStack(im, fr) {
								okAll = false
							}
						}
						if okAll {
							for _, im := range impls {
								for _, ret := range Returns(im) {
									walk(RetVal(ret, 0), &frame{x, im, fr}, depth-1)
								}
							}
							continue
						}
					}
				}
			}
			if sink != nil && sink(src, fr, depth) {
				continue
			}
			if !seen[key] {
				seen[key] = true
				out = append(out, src)
			}
		}
	}
	walk(v, nil, depth)
	return out
}

// singleModuleCallee returns the callee when the call goes to exactly one
// function of the caller's own package: a helper that could have been written
// inline. Functions of other packages are semantic leaves (ReadEnvFile,
// FromMap, …) and are not looked into.
func singleModuleCallee(p *Prog, call *ssa.Call) *ssa.Function {
	cs := p.Callees(&call.Call)
	if len(cs) != 1 || cs[0].Blocks == nil || !InModule(cs[0]) {
		return nil
	}
	if Outer(cs[0]).Pkg != Outer(call.Parent()).Pkg {
		return nil
	}
	return cs[0]
}

// ParamDeps computes which parameters of its function the value v depends on
// by data flow: operands are followed backwards through every instruction
// (calls included: a result depends on all arguments), except that what is
// loaded from an object the function allocated itself is not followed (the
// rules that use this ask where *new* data comes from).
func ParamDeps(v ssa.Value) map[*ssa.Parameter]bool {
	out := map[*ssa.Parameter]bool{}
	seen := map[ssa.Value]bool{}
	var walk func(v ssa.Value, depth int)
	walk = func(v ssa.Value, depth int) {
		if v == nil || seen[v] || depth > 40 {
			return
		}
		seen[v] = true
		switch x := v.(type) {
		case *ssa.Parameter:
			out[x] = true
			return
		case *ssa.Alloc, *ssa.Const, *ssa.Global, *ssa.Function, *ssa.Builtin, *ssa.FreeVar, *ssa.MakeMap, *ssa.MakeSlice, *ssa.MakeChan:
			return
		case *ssa.UnOp:
			if x.Op == token.MUL {
				if fa, ok := x.X.(*ssa.FieldAddr); ok {
					if fresh, _ := FreshBase(fa.X); fresh {
						return
					}
				}
				if a, ok := x.X.(*ssa.Alloc); ok {
					// a local cell: what was stored into it
					if refs := a.Referrers(); refs != nil {
						for _, r := range *refs {
							if st, ok := r.(*ssa.Store); ok && st.Addr == ssa.Value(a) {
								walk(st.Val, depth+1)
							}
						}
					}
					return
				}
			}
		}
		in, ok := v.(ssa.Instruction)
		if !ok {
			return
		}
		for _, op := range in.Operands(nil) {
			if *op != nil {
				walk(*op, depth+1)
			}
		}
	}
	walk(v, 0)
	return out
}

// DeepSourcesFields is DeepSources (through callers) that also looks through
// struct fields: a value loaded from field T.f is replaced by every value any
// module function stores into T.f (type-based, flow-insensitive), recursively.
// Loads that have no store in the module stay as sources.
func (p *Prog) DeepSourcesFields(v ssa.Value, depth int) []ssa.Value {
	var out []ssa.Value
	seen := map[ssa.Value]bool{}
	seenField := map[string]bool{}
	var walk func(v ssa.Value, d int)
	walk = func(v ssa.Value, d int) {
		for _, s := range p.DeepSources(v, 3, true) {
			if seen[s] {
				continue
			}
			seen[s] = true
			if u, ok := s.(*ssa.UnOp); ok && u.Op == token.MUL && d > 0 {
				if fa, ok := u.X.(*ssa.FieldAddr); ok {
					key := TypeField(fa)
					if seenField[key] {
						continue
					}
					seenField[key] = true
					n := 0
					for _, fn := range p.Funcs {
						EachInstr(fn, func(in ssa.Instruction) {
							st, ok := in.(*ssa.Store)
							if !ok {
								return
							}
							if fa2, ok := st.Addr.(*ssa.FieldAddr); ok && TypeField(fa2) == key {
								n++
								walk(st.Val, d-1)
							}
						})
					}
					if n > 0 {
						continue
					}
				}
			}
			out = append(out, s)
		}
	}
	walk(v, depth)
	return out
}
