package an

import (
	"fmt"
	"go/types"
	"strings"

	"golang.org/x/tools/go/ssa"
)

// E7: error discipline.

var errorType = types.Universe.Lookup("error").Type()

// IsErrorType reports whether t is the predeclared error type.
func IsErrorType(t types.Type) bool { return types.Identical(t, errorType) }

// ErrResultIndex returns the index of the (last) error result of sig, or -1.
func ErrResultIndex(sig *types.Signature) int {
	r := sig.Results()
	for i := r.Len() - 1; i >= 0; i-- {
		if IsErrorType(r.At(i).Type()) {
			return i
		}
	}
	return -1
}

// ErrValueOf returns the SSA value(s) holding the error result of a call.
func ErrValueOf(call ssa.CallInstruction) []ssa.Value {
	v := call.Value()
	if v == nil {
		return nil
	}
	sig := call.Common().Signature()
	idx := ErrResultIndex(sig)
	if idx < 0 {
		return nil
	}
	if sig.Results().Len() == 1 {
		return []ssa.Value{v}
	}
	var out []ssa.Value
	if refs := v.Referrers(); refs != nil {
		for _, r := range *refs {
			if ex, ok := r.(*ssa.Extract); ok && ex.Index == idx {
				out = append(out, ex)
			}
		}
	}
	return out
}

// Fate is the classification of an error value.
type Fate struct {
	Kind   string // propagated, converted, fatal, dropped, undecided
	Detail string
}

// nonNilErrorCall: library calls that always return a non-nil error.
func nonNilErrorCall(name string) bool {
	switch name {
	case "fmt.Errorf", "errors.New":
		return true
	}
	return false
}

// ErrFate decides what happens to the error returned by call when it is
// non-nil: every path from the call on which the error is non-nil must end in
// a return of a non-nil error (propagated: the same value, converted: another
// non-nil error), or in a process exit. A path that returns nil or an unknown
// value, or falls off into normal flow, makes it dropped.
func (p *Prog) ErrFate(call ssa.CallInstruction, noReturn func(string) bool) Fate {
	fn := call.Parent()
	errVals := ErrValueOf(call)
	if _, isGo := call.(*ssa.Go); isGo {
		return Fate{"dropped", "started with go: the error has no receiver"}
	}
	if _, isDefer := call.(*ssa.Defer); isDefer {
		return Fate{"dropped", "deferred call: the error is discarded"}
	}
	if len(errVals) == 0 {
		return Fate{"dropped", "the error result is not used"}
	}
	used := false
	for _, ev := range errVals {
		if refs := ev.Referrers(); refs != nil {
			for _, r := range *refs {
				if _, dbg := r.(*ssa.DebugRef); !dbg {
					used = true
				}
			}
		}
	}
	if !used {
		return Fate{"dropped", "the error result is assigned to nothing that is read"}
	}
	outIdx := ErrResultIndex(fn.Signature)
	isErr := map[ssa.Value]bool{}
	for _, ev := range errVals {
		isErr[ev] = true
	}
	ex := &Explorer{P: p, NoReturn: noReturn, MaxVisits: 2}
	ex.Atom = func(v ssa.Value) (AVal, bool) {
		if isErr[v] {
			return AVal{K: ANonNil}, true
		}
		if c, ok := v.(*ssa.Call); ok && nonNilErrorCall(ShortCallee(&c.Call)) {
			return AVal{K: ANonNil}, true
		}
		if u, ok := v.(*ssa.UnOp); ok {
			if g, ok := u.X.(*ssa.Global); ok && IsErrorType(u.Type()) && strings.HasPrefix(g.Name(), "Err") {
				return AVal{K: ANonNil}, true
			}
		}
		return AVal{}, false
	}
	outs := ex.RunFrom(fn, call, nil)
	if len(outs) == 0 {
		return Fate{"undecided", "no path explored"}
	}
	kind := "propagated"
	for _, o := range outs {
		switch o.End {
		case "exit", "panic":
			if kind == "propagated" {
				kind = "fatal"
			}
			continue
		case "return":
			if outIdx < 0 {
				return Fate{"dropped", fmt.Sprintf("%s has no error result: the failure ends at %s", Short(fn), p.Pos(call.Pos()))}
			}
			r := o.Ret[outIdx]
			switch r.K {
			case ANonNil:
				// fine
			case ANil:
				return Fate{"dropped", "a path on which the call failed returns a nil error (conditions on the path: " + strings.Join(o.Unknown, ", ") + ")"}
			default:
				return Fate{"dropped", "a path on which the call failed returns an error value that is not known to be non-nil (conditions on the path: " + strings.Join(o.Unknown, ", ") + ")"}
			}
		case "bound":
			// loop bound reached: the failure was carried round a loop without leaving it
			return Fate{"dropped", "a path on which the call failed keeps iterating instead of returning"}
		default:
			return Fate{"undecided", "path ends with " + o.End}
		}
	}
	// propagated vs converted: does some return carry the very value?
	if kind == "propagated" {
		same := false
		for _, ret := range Returns(fn) {
			if outIdx >= 0 && outIdx < len(ret.Results) {
				for _, r := range Sources(RetVal(ret, outIdx)) {
					if isErr[r] {
						same = true
					}
				}
			}
		}
		if !same {
			kind = "converted"
		}
	}
	return Fate{kind, fmt.Sprintf("%d failure paths, all leave with a non-nil error", len(outs))}
}

// CallSitesOf lists the module call sites (including go/defer) that may call
// target.
func (p *Prog) CallSitesOf(target *ssa.Function) []ssa.CallInstruction {
	var out []ssa.CallInstruction
	for _, fn := range p.Funcs {
		EachInstr(fn, func(in ssa.Instruction) {
			ci, ok := in.(ssa.CallInstruction)
			if !ok {
				return
			}
			for _, callee := range p.Callees(ci.Common()) {
				if callee == target {
					out = append(out, ci)
					return
				}
			}
			for _, callee := range p.VTACallees(ci) {
				if callee == target {
					out = append(out, ci)
					return
				}
			}
		})
	}
	return out
}
