// Command taskverif decides the structural clauses of properties C01–C20 of
// taskctl by static analysis of /repo's current source (see /verif/DESIGN.md).
package main

import (
	"flag"
	"fmt"
	"os"
	"runtime"
	"runtime/debug"
	"strconv"
	"time"

	"taskverif/an"
	"taskverif/rules"
)

func main() {
	prop := flag.String("prop", "", "property id (C01…C20)")
	tier := flag.String("tier", "quick", "quick or thorough")
	root := flag.String("root", "/repo", "tree to analyse")
	verif := flag.String("verif", "/verif", "verification directory (evidence, known findings)")
	dumpFields := flag.Bool("dump-field-table", false, "print the reference table of uniquely typed unexported struct fields of the tree (maintenance: regenerates an/fieldtable.go)")
	flag.Parse()
	if *dumpFields {
		p, err := an.Load(an.LoadOpts{Root: *root})
		if err != nil {
			fmt.Printf("INFRA: cannot load %s: %v\n", *root, err)
			os.Exit(2)
		}
		an.DumpFieldTable(p, os.Stdout)
		return
	}
	if env := os.Getenv("VERIF_TIER"); env != "" && !isFlagSet("tier") {
		*tier = env
	}
	var seed int64
	if s := os.Getenv("VERIF_SEED"); s != "" {
		seed, _ = strconv.ParseInt(s, 10, 64)
	}
	rule, ok := rules.Registry[*prop]
	if !ok {
		fmt.Printf("INFRA: unknown property %q\n", *prop)
		os.Exit(2)
	}
	t0 := time.Now()
	// watchdog: a check that needs more than this is broken, not slow — stop before the machine is exhausted
	go func() {
		limit := uint64(8) << 30
		maxWall := 10 * time.Minute
		if *tier == "thorough" {
			limit = uint64(24) << 30
			maxWall = 60 * time.Minute
		}
		var ms runtime.MemStats
		for {
			time.Sleep(250 * time.Millisecond)
			runtime.ReadMemStats(&ms)
			if ms.HeapAlloc > limit || time.Since(t0) > maxWall {
				fmt.Printf("INFRA: resource budget exceeded while checking %s (heap %d MB, %s): the check is broken on this tree\n", *prop, ms.HeapAlloc>>20, time.Since(t0).Round(time.Second))
				if os.Getenv("TV_DEBUG") != "" {
					buf := make([]byte, 1<<16)
					n := runtime.Stack(buf, true)
					fmt.Fprintf(os.Stderr, "%s\n", buf[:n])
				}
				os.Exit(2)
			}
		}
	}()
	code := 2
	func() {
		defer func() {
			if r := recover(); r != nil {
				fmt.Printf("INFRA: internal panic while checking %s: %v\n%s\n", *prop, r, debug.Stack())
				code = 2
			}
		}()
		p, err := an.Load(an.LoadOpts{Root: *root, Whole: *tier == "thorough"})
		if err != nil {
			fmt.Printf("INFRA: cannot load %s: %v\n", *root, err)
			code = 2
			return
		}
		p.Tier = *tier
		c := an.NewCtx(*prop, p)
		rule(c)
		for _, where := range p.BudgetExhausted {
			c.Und(*prop+".0", "explorer:path-budget("+where+")", 0, "the path exploration of %s exceeded its budget: the obligations decided on its traces are undecided (the code has more feasible-looking paths than the analysis enumerates)", where)
		}
		extra := map[string]interface{}{}
		if *tier == "thorough" {
			rules.VerifDir = *verif
			rules.Thorough(c, *prop, seed, extra)
		}
		code = c.Finish(*verif, *tier, seed, t0, extra)
		if rules.SelfValidationFailed {
			code = 2
		}
	}()
	os.Exit(code)
}

func isFlagSet(name string) bool {
	set := false
	flag.Visit(func(f *flag.Flag) {
		if f.Name == name {
			set = true
		}
	})
	return set
}
